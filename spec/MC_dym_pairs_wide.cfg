SPECIFICATION Spec
CONSTANTS
  Alphabet = {97, 233, 128512}
  MaxLen = 4
INVARIANT Zero
INVARIANT Structural
INVARIANT EmitReplay
INVARIANT EmitReplay2
CHECK_DEADLOCK FALSE
