SPECIFICATION FairSpec
CONSTANT Canonical = FALSE
PROPERTY Termination
INVARIANT Inv_C12
CHECK_DEADLOCK TRUE
