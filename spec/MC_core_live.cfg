SPECIFICATION FairSpec
CONSTANT Lax = FALSE
CONSTANT Canonical = FALSE
PROPERTY Termination
INVARIANT Inv_C12
CHECK_DEADLOCK TRUE
