SPECIFICATION Spec
CONSTANT MaxItems = 2
INVARIANT PoisonRejected
INVARIANT OnlyPoisonRejected
INVARIANT NoOverride
INVARIANT NoDrop
INVARIANT NeverStuck
INVARIANT MachineIsFunction
INVARIANT EmitReplay
CHECK_DEADLOCK FALSE
