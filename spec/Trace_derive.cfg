SPECIFICATION TraceSpec
CONSTANT MaxItems = 0
INVARIANT Report
POSTCONDITION TraceAccepted
CHECK_DEADLOCK FALSE
