------------------------------ MODULE MC_bridge ------------------------------
(* Small-scope enumeration of JSON documents (depth <= 2, width <= 2) over the  *)
(* number literals at every classification boundary.                            *)
EXTENDS DBridge, TLC, Json

VARIABLE doc      \* a document described by literals: numbers are [neg, d, fe, txt]
bvars == <<doc>>

Lit(neg, d, fe, txt) == [q |-> "num", neg |-> neg, d |-> d, fe |-> fe, txt |-> txt, b |-> FALSE, e |-> <<>>]
LNull == [q |-> "null", neg |-> FALSE, d |-> DZero, fe |-> FALSE, txt |-> "", b |-> FALSE, e |-> <<>>]
LBool(b) == [q |-> "bool", neg |-> FALSE, d |-> DZero, fe |-> FALSE, txt |-> "", b |-> b, e |-> <<>>]
LStr(s) == [q |-> "str", neg |-> FALSE, d |-> DZero, fe |-> FALSE, txt |-> s, b |-> FALSE, e |-> <<>>]
LArr(es) == [q |-> "seq", neg |-> FALSE, d |-> DZero, fe |-> FALSE, txt |-> "", b |-> FALSE, e |-> es]
LObj(ms) == [q |-> "map", neg |-> FALSE, d |-> DZero, fe |-> FALSE, txt |-> "", b |-> FALSE, e |-> ms]

P53 == DPow2(53)
NumLits == {
    Lit(FALSE, DZero, FALSE, ""), Lit(FALSE, <<1>>, FALSE, ""), Lit(FALSE, DDec(P53), FALSE, ""), Lit(FALSE, DInc(P53), FALSE, ""),
    Lit(FALSE, DDec(DPow2(63)), FALSE, ""), Lit(FALSE, DPow2(63), FALSE, ""), Lit(FALSE, DDec(DPow2(64)), FALSE, ""),
    Lit(FALSE, DPow2(64), FALSE, ""),                                   \* u64::MAX + 1 as a literal
    Lit(TRUE, <<1>>, FALSE, ""), Lit(TRUE, DPow2(63), FALSE, ""), Lit(TRUE, DInc(DPow2(63)), FALSE, ""),   \* -1, i64::MIN, i64::MIN - 1
    Lit(TRUE, DZero, FALSE, ""),                                        \* -0
    Lit(FALSE, DZero, TRUE, ".5"), Lit(TRUE, DZero, TRUE, ".0"), Lit(FALSE, <<5>>, TRUE, "e-324"), Lit(FALSE, <<1>>, TRUE, "e308"),
    Lit(FALSE, <<1>>, TRUE, ".0"), Lit(FALSE, <<1>>, TRUE, "e2") }
Scalars == NumLits \cup {LNull, LBool(TRUE), LBool(FALSE), LStr(""), LStr("a")}
Small == {Lit(FALSE, DDec(DPow2(64)), FALSE, ""), Lit(TRUE, DPow2(63), FALSE, ""), Lit(TRUE, DZero, FALSE, ""), Lit(FALSE, <<5>>, TRUE, "e-324"),
          Lit(FALSE, DPow2(64), FALSE, ""), LNull, LStr("a"), Lit(FALSE, DPow2(63), FALSE, "")}
Level1 == Scalars
       \cup {LArr(<<>>), LObj(<<>>)}
       \cup {LArr(<<x>>) : x \in Scalars} \cup {LArr(<<x, y>>) : x \in Small, y \in Small}
       \cup {LObj(<<[k |-> "a", v |-> x]>>) : x \in Scalars} \cup {LObj(<<[k |-> "a", v |-> x], [k |-> "b", v |-> y]>>) : x \in Small, y \in Small}
Mid == {LArr(<<>>), LObj(<<>>)} \cup {LArr(<<x>>) : x \in Small} \cup {LObj(<<[k |-> "a", v |-> x]>>) : x \in Small}
          \cup {LArr(<<Lit(TRUE, <<1>>, FALSE, ""), Lit(FALSE, DPow2(63), FALSE, "")>>)}
Level2 == {LArr(<<p>>) : p \in Mid} \cup {LArr(<<p, q>>) : p \in Mid, q \in Mid}
       \cup {LObj(<<[k |-> "a", v |-> p]>>) : p \in Mid} \cup {LObj(<<[k |-> "a", v |-> p], [k |-> "b", v |-> q]>>) : p \in Mid, q \in Mid}
Docs == Level1 \cup Level2

\* how serde_json holds the described document (floats are opaque at this level: s = the literal text)
RECURSIVE Held(_)
Held(x) ==
    CASE x.q = "null" -> JNull [] x.q = "bool" -> JBool(x.b) [] x.q = "str" -> JStr(x.txt, 0)
      [] x.q = "num" -> LET h == LitHolds([neg |-> x.neg, d |-> x.d, fe |-> x.fe]) IN
                        IF h = "u64" THEN JPos(x.d) ELSE IF h = "i64" THEN JNegI(x.d) ELSE JFloat("lit")
      [] x.q = "seq" -> JArr([j \in 1..Len(x.e) |-> Held(x.e[j])])
      [] x.q = "map" -> JObj([j \in 1..Len(x.e) |-> [k |-> x.e[j].k, v |-> Held(x.e[j].v)]])

Init == doc \in Docs
Next == UNCHANGED bvars
Spec == Init /\ [][Next]_bvars

KindInv == KindsAgreeEverywhere(Held(doc))
RoundTripInv == RoundTrips(Held(doc))
NoPanicKind == KindChain(Held(doc)) # "PANIC"
EmitReplay == PrintT(<<"REPLAY", ToJson([doc |-> doc])>>)
=============================================================================
