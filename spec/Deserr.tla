------------------------------- MODULE Deserr -------------------------------
(***************************************************************************)
(* The abstract deserialization machine.                                   *)
(*                                                                         *)
(* deserr::deserialize::<T, V, E>(v) is modelled as a stack machine whose  *)
(* transitions are the externally observable events of one call:           *)
(*   enter(n, loc)   the Deserr impl of type node n is entered at loc      *)
(*   err(det, loc)   E::error is asked to record a report, answers c / b   *)
(*   mrg(other, loc) E::merge hands an error over to the enclosing frame   *)
(*   exit(n, ok|err) the impl returns                                      *)
(*   done / panic    deserialize returned / unwound                        *)
(* The target type is a node of the catalogue table (catalogue.json, the   *)
(* same file the Rust catalogue is generated from); the payload is a value *)
(* record; the answers of the error type, and the order in which a         *)
(* container discharges its obligations (elements, members, missing-field  *)
(* checks), are nondeterministic.                                          *)
(*                                                                         *)
(* Candidates(stack, cur) is the set of events the property-conforming     *)
(* machine may take next; Apply is the state update.  The generative spec  *)
(* (MC_core) takes only candidates; the monitoring spec (Trace_core)       *)
(* consumes recorded events of the real code, compares each with the       *)
(* candidates and records which property a deviation violates.             *)
(***************************************************************************)
EXTENDS DScalar, DBridge, TLC, Json, IOUtils

\* the committed catalogue, or (thorough tier: base catalogue + seeded random derive inputs) the file named by $CATALOGUE
Cat   == JsonDeserialize(IF "CATALOGUE" \in DOMAIN IOEnv THEN IOEnv.CATALOGUE ELSE "../catalogue/catalogue.json")
Nodes == Cat.nodes

(* ------------------------------ small helpers --------------------------- *)
KeyStep(k) == [t |-> "key", k |-> k, i |-> 0]
IdxStep(i) == [t |-> "idx", k |-> "", i |-> i]
Ob(o, i)   == [o |-> o, i |-> i]
NoOb       == Ob("none", 0)

NullV == R("null", FALSE, "", 0, DZero, "", 0, <<>>)
RV(r, b, sg, d, s, name, e) == [r |-> r, b |-> b, sg |-> sg, d |-> d, s |-> s, name |-> name, e |-> e]
UnitRV == RV("unit", FALSE, 0, DZero, "", "", <<>>)

KindOfV(v) == CASE v.t = "null" -> "Null" [] v.t = "bool" -> "Boolean" [] v.t = "int" -> "Integer" [] v.t = "neg" -> "NegativeInteger"
                [] v.t = "float" -> "Float" [] v.t = "str" -> "String" [] v.t = "seq" -> "Sequence" [] v.t = "map" -> "Map"

\* what a probe logs about the value it is handed: kind and scalar text / length
DigitChar(d) == SubSeq("0123456789", d + 1, d + 1)
RECURSIVE DigitsText(_)
DigitsText(d) == IF Len(d) = 0 THEN "" ELSE DigitChar(d[1]) \o DigitsText(SubSeq(d, 2, Len(d)))
NumText(v) == IF v.sg < 0 THEN "-" \o DigitsText(v.d) ELSE DigitsText(v.d)
RECURSIVE NatText(_)
NatText(n) == IF n < 10 THEN DigitChar(n) ELSE NatText(n \div 10) \o DigitChar(n % 10)
SummaryOf(v) == CASE v.t = "null" -> "" [] v.t = "bool" -> (IF v.b THEN "true" ELSE "false") [] v.t \in {"int", "neg"} -> NumText(v)
                  [] v.t = "float" -> v.s [] v.t = "str" -> v.s [] OTHER -> NatText(Len(v.e))

Contains(hay, needle) == \E i \in 1..(Len(hay) - Len(needle) + 1) : SubSeq(hay, i, i + Len(needle) - 1) = needle

SeqToSet(s) == {s[j] : j \in 1..Len(s)}
Count(s, x) == Cardinality({j \in 1..Len(s) : s[j] = x})
SameBag(a, b) == Len(a) = Len(b) /\ \A x \in SeqToSet(a) \cup SeqToSet(b) : Count(a, x) = Count(b, x)

(* ------------------------- effective keys (C07) ------------------------- *)
\* letters: ASCII plus the Latin-1 letters (Rust identifiers may be non-ASCII; lowercasing is Unicode's)
LowerAlpha == "abcdefghijklmnopqrstuvwxyzàáâãäåæçèéêëìíîïðñòóôõöøùúûüýþ"
UpperAlpha == "ABCDEFGHIJKLMNOPQRSTUVWXYZÀÁÂÃÄÅÆÇÈÉÊËÌÍÎÏÐÑÒÓÔÕÖØÙÚÛÜÝÞ"
PosIn(c, alpha) == IF \E i \in 1..Len(alpha) : SubSeq(alpha, i, i) = c THEN CHOOSE i \in 1..Len(alpha) : SubSeq(alpha, i, i) = c ELSE 0
IsUpperC(c) == PosIn(c, UpperAlpha) > 0
IsLowerC(c) == PosIn(c, LowerAlpha) > 0
IsDigitC(c) == \E d \in 0..9 : c = DigitChar(d)
ToUpperC(c) == IF IsLowerC(c) THEN SubSeq(UpperAlpha, PosIn(c, LowerAlpha), PosIn(c, LowerAlpha)) ELSE c
ToLowerC(c) == IF IsUpperC(c) THEN SubSeq(LowerAlpha, PosIn(c, UpperAlpha), PosIn(c, UpperAlpha)) ELSE c

RECURSIVE LowerStr(_)
LowerStr(s) == IF Len(s) = 0 THEN "" ELSE ToLowerC(SubSeq(s, 1, 1)) \o LowerStr(SubSeq(s, 2, Len(s)))
Capitalize(w) == IF Len(w) = 0 THEN "" ELSE ToUpperC(SubSeq(w, 1, 1)) \o LowerStr(SubSeq(w, 2, Len(w)))

\* camelCase of an identifier: the identifier is cut into words at "_" (dropped), where a lower-case letter is followed by an
\* upper-case one, between a letter and a digit (either way), and before the last capital of an acronym ("HTTPServer" -> HTTP, Server);
\* the first word is lower-cased, every later word is capitalised.
BoundaryBefore(s, i) ==      \* is there a word boundary between s[i-1] and s[i] (neither being "_")
    LET a == SubSeq(s, i - 1, i - 1) b == SubSeq(s, i, i) IN
    \/ (IsLowerC(a) /\ IsUpperC(b))
    \/ (IsDigitC(a) /\ (IsUpperC(b) \/ IsLowerC(b)))
    \/ ((IsUpperC(a) \/ IsLowerC(a)) /\ IsDigitC(b))
    \/ (IsUpperC(a) /\ IsUpperC(b) /\ i + 1 <= Len(s) /\ IsLowerC(SubSeq(s, i + 1, i + 1)))
RECURSIVE WordsFrom(_, _, _)
WordsFrom(s, i, cur) ==
    IF i > Len(s) THEN (IF cur = "" THEN <<>> ELSE <<cur>>)
    ELSE LET c == SubSeq(s, i, i) IN
         IF c = "_" THEN (IF cur = "" THEN <<>> ELSE <<cur>>) \o WordsFrom(s, i + 1, "")
         ELSE IF cur # "" /\ BoundaryBefore(s, i) THEN <<cur>> \o WordsFrom(s, i + 1, c)
         ELSE WordsFrom(s, i + 1, cur \o c)
RECURSIVE JoinCap(_)
JoinCap(ws) == IF Len(ws) = 0 THEN "" ELSE Capitalize(ws[1]) \o JoinCap(SubSeq(ws, 2, Len(ws)))
CamelCase(s) == LET ws == WordsFrom(s, 1, "") IN IF Len(ws) = 0 THEN "" ELSE LowerStr(ws[1]) \o JoinCap(SubSeq(ws, 2, Len(ws)))

\* rename > applicable rename_all > the identifier itself
KeyFor(ident, rename, ra) ==
    IF rename.z = "some" THEN rename.v
    ELSE IF ra = "camelCase" THEN CamelCase(ident)
    ELSE IF ra = "lowercase" THEN LowerStr(ident)
    ELSE ident

(* ------------------------------- frames --------------------------------- *)
\* the fields / rename_all in force for a struct-like frame
FieldsOfNode(N, vi) == IF N.c = "struct" THEN N.fields ELSE IF vi > 0 THEN N.variants[vi].fields ELSE <<>>
RaOfNode(N, vi)     == IF N.c = "struct" THEN N.rename_all ELSE IF vi > 0 THEN N.variants[vi].rename_all ELSE ""
EffKey(N, vi, fi)   == LET f == FieldsOfNode(N, vi)[fi] IN KeyFor(f.ident, f.rename, RaOfNode(N, vi))
VariantKey(N, vj)   == KeyFor(N.variants[vj].ident, N.variants[vj].rename, N.rename_all)

ActiveFields(N, vi) == {fi \in 1..Len(FieldsOfNode(N, vi)) : ~FieldsOfNode(N, vi)[fi].skip}
\* the accepted keys, in declaration order
RECURSIVE AcceptedFrom(_, _, _)
AcceptedFrom(N, vi, fi) ==
    IF fi > Len(FieldsOfNode(N, vi)) THEN <<>>
    ELSE (IF FieldsOfNode(N, vi)[fi].skip THEN <<>> ELSE <<EffKey(N, vi, fi)>>) \o AcceptedFrom(N, vi, fi + 1)
Accepted(N, vi) == AcceptedFrom(N, vi, 1)
RECURSIVE VariantKeysFrom(_, _)
VariantKeysFrom(N, vj) == IF vj > Len(N.variants) THEN <<>> ELSE <<VariantKey(N, vj)>> \o VariantKeysFrom(N, vj + 1)

Min(S) == CHOOSE x \in S : \A y \in S : x <= y
\* the field a member key is routed to: the first non-skipped field, in declaration order, with that effective key; 0 = unknown
Route(N, vi, k) == LET S == {fi \in ActiveFields(N, vi) : EffKey(N, vi, fi) = k} IN IF S = {} THEN 0 ELSE Min(S)

\* the effective keys of a struct-like node are computed once per frame (the string functions above are costly in TLC)
KeysOf(N, vi) == [fi \in 1..Len(FieldsOfNode(N, vi)) |-> EffKey(N, vi, fi)]
RouteK(N, vi, keys, k) == LET S == {fi \in ActiveFields(N, vi) : keys[fi] = k} IN IF S = {} THEN 0 ELSE Min(S)
RECURSIVE AcceptedKFrom(_, _, _, _)
AcceptedKFrom(N, vi, keys, fi) ==
    IF fi > Len(keys) THEN <<>>
    ELSE (IF FieldsOfNode(N, vi)[fi].skip THEN <<>> ELSE <<keys[fi]>>) \o AcceptedKFrom(N, vi, keys, fi + 1)
AcceptedK(N, vi, keys) == AcceptedKFrom(N, vi, keys, 1)

\* std's FromStr on a string, as logged by the harness for the current payload
ParseKey(pk, ty, k) ==
    IF ty = "String" THEN [z |-> "some", v |-> k]
    ELSE LET S == {j \in 1..Len(pk) : pk[j].k = k} IN
         IF S = {} THEN [z |-> "none", v |-> ""]
         ELSE LET row == pk[Min(S)] IN
              CASE ty = "u8" -> row.u8 [] ty = "i32" -> row.i32 [] ty = "bool" -> row.bool [] ty = "char" -> row.char [] OTHER -> [z |-> "none", v |-> ""]

\* comma separated list: non-empty segments in order
RECURSIVE SplitFrom(_, _, _)
SplitFrom(s, i, cur) ==
    IF i > Len(s) THEN (IF cur = "" THEN <<>> ELSE <<cur>>)
    ELSE IF SubSeq(s, i, i) = "," THEN (IF cur = "" THEN <<>> ELSE <<cur>>) \o SplitFrom(s, i + 1, "")
    ELSE SplitFrom(s, i + 1, cur \o SubSeq(s, i, i))
Segments(s) == SplitFrom(s, 1, "")

TagMembers(N, val) == {j \in 1..Len(val.e) : val.e[j].k = N.tag}

\* --- classification of a value by a type node: what the frame will do ------------------------
\* result: [ph, pend, vi, det, eloc, okv]  (det/eloc: the structural or leaf report to make; okv: value of a leaf success)
Det(k, actual, accepted, field, key, value, expected, msgkey) ==
    [k |-> k, actual |-> actual, accepted |-> accepted, field |-> field, key |-> key, value |-> value, expected |-> expected, msgkey |-> msgkey]
NoDet == Det("", NullV, <<>>, "", "", "", 0, "")
KindDet(v, acc) == Det("kind", v, acc, "", "", "", 0, "")

Cl(ph, pend, vi, det, eloc, okv) == [ph |-> ph, pend |-> pend, vi |-> vi, det |-> det, eloc |-> eloc, okv |-> okv]

NumRV(x) == RV("num", FALSE, x.sg, x.d, "", "", <<>>)
ScalarRV(name, v) ==
    CASE IsIntTarget(name)          -> NumRV(NumOf(v))
      [] Cls(name) = "bool"         -> RV("bool", v.b, 0, DZero, "", "", <<>>)
      [] Cls(name) \in {"string", "char"} -> RV("str", FALSE, 0, DZero, v.s, "", <<>>)
      [] Cls(name) = "float"        -> RV("float", FALSE, 0, DZero, "", "", <<>>)      \* bits are C05's business
      [] OTHER                      -> UnitRV

RECURSIVE SegRVs(_)
SegRVs(segs) == IF Len(segs) = 0 THEN <<>> ELSE <<RV("str", FALSE, 0, DZero, segs[1], "", <<>>)>> \o SegRVs(SubSeq(segs, 2, Len(segs)))

AdmissibleSeq(name) == \* only used as a set
    Admissible(name)

StructPend(N, vi, val, skipj) ==
    LET members == {j \in 1..Len(val.e) : j # skipj}
        keys == KeysOf(N, vi)
        routed(j) == RouteK(N, vi, keys, val.e[j].k)
    IN {Ob("entry", j) : j \in {m \in members : routed(m) > 0 \/ N.deny # ""}}
       \cup {Ob("missing", fi) : fi \in {f \in ActiveFields(N, vi) : FieldsOfNode(N, vi)[f].dflt = "none"
                                                                  /\ ~\E m \in members : routed(m) = f}}

Classify(n, val, loc, pk) ==
    LET N == Nodes[n] IN
    CASE N.c = "scalar" ->
            LET o == Outcome(N.name, val) IN
            IF o.z = "ok" THEN Cl("leafok", {}, 0, NoDet, loc, ScalarRV(N.name, val))
            ELSE IF o.z = "kind" THEN Cl("bad", {}, 0, KindDet(val, o.acc), loc, UnitRV)
            ELSE Cl("bad", {}, 0, Det("unexpected", NullV, {}, "", "", "", 0, ""), loc, UnitRV)
      [] N.c \in {"vec", "hset", "bset"} ->
            IF val.t = "seq" THEN Cl("work", {Ob("elem", i) : i \in 1..Len(val.e)}, 0, NoDet, loc, UnitRV)
            ELSE Cl("bad", {}, 0, KindDet(val, {"Sequence"}), loc, UnitRV)
      [] N.c \in {"arr", "tup"} ->
            IF val.t # "seq" THEN Cl("bad", {}, 0, KindDet(val, {"Sequence"}), loc, UnitRV)
            ELSE IF Len(val.e) # N.arity THEN Cl("bad", {}, 0, Det("badlen", val, {}, "", "", "", N.arity, ""), loc, UnitRV)
            ELSE Cl("work", {Ob("elem", i) : i \in 1..N.arity}, 0, NoDet, loc, UnitRV)
      [] N.c = "opt" ->
            IF val.t = "null" THEN Cl("leafok", {}, 0, NoDet, loc, RV("none", FALSE, 0, DZero, "", "", <<>>))
            ELSE Cl("work", {Ob("inner", 1)}, 0, NoDet, loc, UnitRV)
      [] N.c = "box" -> Cl("work", {Ob("inner", 1)}, 0, NoDet, loc, UnitRV)
      [] N.c \in {"hmap", "bmap"} ->
            IF val.t = "map" THEN Cl("work", {Ob("entry", j) : j \in 1..Len(val.e)}, 0, NoDet, loc, UnitRV)
            ELSE Cl("bad", {}, 0, KindDet(val, {"Map"}), loc, UnitRV)
      [] N.c = "cs" ->
            IF val.t # "str" THEN Cl("bad", {}, 0, KindDet(val, {"String"}), loc, UnitRV)
            ELSE LET segs == Segments(val.s) IN
                 IF \A j \in 1..Len(segs) : ParseKey(pk, N.name, segs[j]).z = "some"
                 THEN Cl("leafok", {}, 0, NoDet, loc,
                         RV("list", FALSE, 0, DZero, "", "", [j \in 1..Len(segs) |-> RV("str", FALSE, 0, DZero, ParseKey(pk, N.name, segs[j]).v, "", <<>>)]))
                 ELSE Cl("bad", {}, 0, Det("unexpected", NullV, {}, "", "", "", 0, ""), loc, UnitRV)
      [] N.c = "jvalue" ->
            IF DeserFails(val) THEN Cl("jbad", {}, 0, NoDet, loc, UnitRV)
            ELSE Cl("leafok", {}, 0, NoDet, loc, RV("json", FALSE, 0, DZero, "", "", <<BackOf(val)>>))
      [] N.c = "phantom" -> Cl("leafok", {}, 0, NoDet, loc, UnitRV)
      [] N.c = "cfrom" -> Cl("work", {Ob("inner", 1)}, 0, NoDet, loc, UnitRV)
      [] N.c = "struct" ->
            IF val.t = "map" THEN Cl("work", StructPend(N, 0, val, 0), 0, NoDet, loc, UnitRV)
            ELSE Cl("bad", {}, 0, KindDet(val, {"Map"}), loc, UnitRV)
      [] N.c = "enum" ->
            IF val.t # "map" THEN Cl("bad", {}, 0, KindDet(val, {"Map"}), loc, UnitRV)
            ELSE IF TagMembers(N, val) = {} THEN Cl("bad", {}, 0, Det("missing", NullV, {}, N.tag, "", "", 0, ""), loc, UnitRV)
            ELSE LET tj == Min(TagMembers(N, val)) tv == val.e[tj].v IN
                 IF tv.t # "str" THEN Cl("bad", {}, 0, KindDet(tv, {"String"}), Append(loc, KeyStep(N.tag)), UnitRV)
                 ELSE LET vs == {vj \in 1..Len(N.variants) : VariantKey(N, vj) = tv.s} IN
                      IF vs = {} THEN Cl("bad", {}, 0, Det("unexpected", NullV, {}, "", "", "", 0, ""), loc, UnitRV)
                      ELSE LET vj == Min(vs) IN
                           IF N.variants[vj].unit THEN Cl("leafok", {}, vj, NoDet, loc, RV("variant", FALSE, 0, DZero, "", N.variants[vj].ident, <<>>))
                           ELSE Cl("work", StructPend(N, vj, val, tj), vj, NoDet, loc, UnitRV)
      [] N.c = "uenum" ->
            IF val.t # "str" THEN Cl("bad", {}, 0, KindDet(val, {"String"}), loc, UnitRV)
            ELSE LET vs == {vj \in 1..Len(N.variants) : VariantKey(N, vj) = val.s} IN
                 IF vs = {} THEN Cl("bad", {}, 0, Det("unknownvalue", NullV, VariantKeysFrom(N, 1), "", "", val.s, 0, ""), loc, UnitRV)
                 ELSE Cl("leafok", {}, Min(vs), NoDet, loc, RV("variant", FALSE, 0, DZero, "", N.variants[Min(vs)].ident, <<>>))

\* a user function call in flight: k \in from|try|cfrom|ctry|map|validate|missing|deny
FnP(k, f, ob, arg, loc, fety, fi, id) == [k |-> k, f |-> f, ob |-> ob, arg |-> arg, loc |-> loc, fety |-> fety, fi |-> fi, id |-> id]
NoFn == FnP("", "", NoOb, UnitRV, <<>>, "E", 0, 0)

StrRV(str) == RV("str", FALSE, 0, DZero, str, "", <<>>)
StrsRV(ss) == RV("list", FALSE, 0, DZero, "", "", [j \in 1..Len(ss) |-> StrRV(ss[j])])
LocRV(loc) == RV("loc", FALSE, 0, DZero, "", "", loc)

Frame(n, loc, val, ob, ety, cl) ==
    [n |-> n, loc |-> loc, val |-> val, ob |-> ob, ety |-> ety, ph |-> cl.ph, pend |-> cl.pend, vi |-> cl.vi, det |-> cl.det,
     eloc |-> cl.eloc, okv |-> cl.okv, since |-> {}, brk |-> FALSE, fail |-> FALSE, res |-> <<>>, hand |-> <<>>,
     rogue |-> FALSE, parsed |-> <<>>, optv |-> {}, optdone |-> {},
     fnp |-> NoFn, mapped |-> {}, mres |-> <<>>, vst |-> "none", fv |-> UnitRV, phb |-> cl.ph,
     fkeys |-> IF Nodes[n].c \in {"struct", "enum"} THEN KeysOf(Nodes[n], cl.vi) ELSE <<>>]

(* ------------------------- children of a frame -------------------------- *)
IsStructLike(N) == N.c \in {"struct", "enum"}
IsMapTarget(N)  == N.c \in {"hmap", "bmap"}

\* the child that discharges obligation ob of frame F: [has, n, loc, val, ety]
Child(F, ob) ==
    LET N == Nodes[F.n] IN
    CASE ob.o = "elem"  -> [has |-> TRUE, n |-> IF N.c = "tup" THEN N.kids[ob.i] ELSE N.kids[1],
                            loc |-> Append(F.loc, IdxStep(ob.i - 1)), val |-> F.val.e[ob.i], ety |-> F.ety]
      [] ob.o = "inner" -> [has |-> TRUE, n |-> N.kids[1], loc |-> F.loc, val |-> F.val, ety |-> F.ety]
      [] ob.o = "entry" ->
            LET m == F.val.e[ob.i] IN
            IF IsMapTarget(N) THEN [has |-> TRUE, n |-> N.kids[1], loc |-> Append(F.loc, KeyStep(m.k)), val |-> m.v, ety |-> F.ety]
            ELSE LET fi == RouteK(N, F.vi, F.fkeys, m.k) IN
                 IF fi = 0 THEN [has |-> FALSE, n |-> 0, loc |-> F.loc, val |-> NullV, ety |-> F.ety]
                 ELSE [has |-> TRUE, n |-> FieldsOfNode(N, F.vi)[fi].node, loc |-> Append(F.loc, KeyStep(m.k)), val |-> m.v,
                       ety |-> FieldsOfNode(N, F.vi)[fi].ety]
      \* the value behind a map key that could not be parsed (see Candidates: it MAY be examined as well)
      [] ob.o = "optval" -> [has |-> TRUE, n |-> N.kids[1], loc |-> Append(F.loc, KeyStep(F.val.e[ob.i].k)), val |-> F.val.e[ob.i].v, ety |-> F.ety]
      [] OTHER -> [has |-> FALSE, n |-> 0, loc |-> F.loc, val |-> NullV, ety |-> F.ety]

\* total order on obligations used by the canonical (source order) schedule: members/elements by index, then missing checks
ObRank(ob) == CASE ob.o = "handover" -> 0 - 1000 + ob.i      \* the current code hands a child's error over as soon as the child returns
                [] ob.o \in {"elem", "entry", "inner"} -> ob.i [] ob.o = "missing" -> 100000 + ob.i [] OTHER -> 200000 + ob.i
ObLeq(a, b) == ObRank(a) <= ObRank(b)
RECURSIVE SetToSeqByRank(_)
SetToSeqByRank(S) == IF S = {} THEN <<>> ELSE LET m == CHOOSE x \in S : \A y \in S : ObLeq(x, y) IN <<m>> \o SetToSeqByRank(S \ {m})

(* ------------------------------ candidates ------------------------------ *)
\* one shape for all candidate events
Ev(e, n, loc, ob, det, ans, ok, val, ids, ety) ==
    [e |-> e, n |-> n, loc |-> loc, ob |-> ob, det |-> det, ans |-> ans, ok |-> ok, val |-> val, ids |-> ids, ety |-> ety,
     f |-> "", args |-> <<>>, argk |-> "", k |-> "", fi |-> 0]
\* call / ret of a user function.  argk says how the observed arguments are compared: "exact" (args), "map" (value of field fi),
\* "validate" (the finished value and the container location)
EvCall(f, k, ob, args, argk, fi, loc, ety) ==
    [Ev("call", 0, loc, ob, NoDet, "", TRUE, UnitRV, <<>>, ety) EXCEPT !.f = f, !.args = args, !.argk = argk, !.k = k, !.fi = fi]
EvRet(f, ok, ety) == [Ev("ret", 0, <<>>, NoOb, NoDet, "", ok, UnitRV, <<>>, ety) EXCEPT !.f = f]
Answers == {"c", "b"}

\* the value a frame returns when everything below succeeded (children's values are the observed ones)
ResOf(F, ob) == LET S == {j \in 1..Len(F.res) : F.res[j].ob = ob} IN F.res[CHOOSE j \in S : \A k \in S : j >= k].v
HasRes(F, ob) == \E j \in 1..Len(F.res) : F.res[j].ob = ob

UnmappedFieldValue(F, N, fi) ==
    \* set of admissible values of field fi before `map`: the value of a member routed to it (after from / try_from), else its default
    LET ms == {j \in 1..Len(F.val.e) : HasRes(F, Ob("entry", j)) /\ RouteK(N, F.vi, F.fkeys, F.val.e[j].k) = fi} IN
    IF ms = {} THEN {FieldsOfNode(N, F.vi)[fi].dval} ELSE {ResOf(F, Ob("entry", j)) : j \in ms}
FieldValue(F, N, fi) ==
    \* ... and after `map`: what the function returned
    IF fi \in F.mapped THEN {F.mres[CHOOSE j \in 1..Len(F.mres) : F.mres[j].fi = fi].v} ELSE UnmappedFieldValue(F, N, fi)

\* JSON documents are compared modulo the order of object members (serde_json may keep them sorted); when a second value source
\* presented a key twice, any of its occurrences may be the one that is kept (expected: a, observed: b)
RECURSIVE DocEq(_, _)
DocEq(a, b) ==
    IF a.t # b.t THEN FALSE
    ELSE CASE a.t = "seq" -> Len(a.e) = Len(b.e) /\ \A j \in 1..Len(a.e) : DocEq(a.e[j], b.e[j])
           [] a.t = "map" -> /\ {a.e[j].k : j \in 1..Len(a.e)} = {b.e[j].k : j \in 1..Len(b.e)}
                             /\ Cardinality({b.e[j].k : j \in 1..Len(b.e)}) = Len(b.e)
                             /\ \A j \in 1..Len(b.e) : \E i \in 1..Len(a.e) : a.e[i].k = b.e[j].k /\ DocEq(a.e[i].v, b.e[j].v)
           [] OTHER -> a = b
JsonRVAgrees(doc, v) == v.r = "json" /\ Len(v.e) = 1 /\ DocEq(doc, v.e[1])

\* does the observed success value v agree with what frame F must return?  (sets and maps are compared as sets)
ValueAgrees(F, v) ==
    LET N == Nodes[F.n] IN
    CASE F.vst = "ok" -> v = F.fv                       \* what `validate` returned is what ends up in the result
      [] F.ph = "leafok" ->
            IF N.c = "scalar" /\ Cls(N.name) = "float" THEN v.r = "float"
            ELSE IF N.c = "jvalue" THEN JsonRVAgrees(F.okv.e[1], v)
            ELSE v = F.okv
      [] N.c \in {"vec", "arr", "tup"} ->
            v.r = "list" /\ Len(v.e) = Len(F.val.e) /\ \A i \in 1..Len(v.e) : v.e[i] = ResOf(F, Ob("elem", i))
      [] N.c \in {"hset", "bset"} ->
            v.r = "set" /\ SeqToSet(v.e) = {ResOf(F, Ob("elem", i)) : i \in 1..Len(F.val.e)} /\ Cardinality(SeqToSet(v.e)) = Len(v.e)
      [] N.c = "opt" -> v.r = "some" /\ v.e = <<ResOf(F, Ob("inner", 1))>>
      [] N.c \in {"box", "cfrom"} -> v = ResOf(F, Ob("inner", 1))      \* cfrom: what the conversion function returned
      [] N.c \in {"hmap", "bmap"} ->
            LET pkey(j) == F.parsed[j] IN
            /\ v.r = "map"
            /\ {v.e[i].k : i \in 1..Len(v.e)} = {pkey(j) : j \in 1..Len(F.val.e)}
            /\ Cardinality({v.e[i].k : i \in 1..Len(v.e)}) = Len(v.e)
            /\ \A i \in 1..Len(v.e) : v.e[i].v \in {ResOf(F, Ob("entry", j)) : j \in {m \in 1..Len(F.val.e) : pkey(m) = v.e[i].k}}
      [] N.c \in {"struct", "enum"} ->
            LET fs == FieldsOfNode(N, F.vi) IN
            /\ v.r = (IF N.c = "struct" THEN "struct" ELSE "variant")
            /\ v.name = (IF N.c = "struct" THEN N.name ELSE N.variants[F.vi].ident)
            /\ Len(v.e) = Len(fs)
            /\ \A fi \in 1..Len(fs) : v.e[fi].k = fs[fi].ident /\ v.e[fi].v \in FieldValue(F, N, fi)
      [] OTHER -> TRUE

StartOf(F, ob, pk) ==
    LET N == Nodes[F.n] ch == Child(F, ob) IN
    CASE ob.o \in {"elem", "inner"} -> {Ev("enter", ch.n, ch.loc, ob, NoDet, "", TRUE, UnitRV, <<>>, ch.ety)}
      [] ob.o = "entry" ->
            LET m == F.val.e[ob.i] IN
            IF IsMapTarget(N)
            THEN IF ParseKey(pk, N.name, m.k).z = "some"
                 THEN {Ev("enter", ch.n, ch.loc, ob, NoDet, "", TRUE, UnitRV, <<>>, ch.ety)}
                 ELSE {Ev("err", 0, F.loc, ob, Det("unexpected", NullV, {}, "", "", "", 0, m.k), a, TRUE, UnitRV, <<>>, F.ety) : a \in Answers}
            ELSE IF ch.has
                 THEN {Ev("enter", ch.n, ch.loc, ob, NoDet, "", TRUE, UnitRV, <<>>, ch.ety)}
                 ELSE IF N.deny = "fn"
                 THEN {EvCall(N.denyfn, "deny", ob, <<StrRV(m.k), StrsRV(AcceptedK(N, F.vi, F.fkeys)), LocRV(F.loc)>>, "exact", 0, F.loc, F.ety)}
                 ELSE {Ev("err", 0, F.loc, ob, Det("unknownkey", NullV, AcceptedK(N, F.vi, F.fkeys), "", m.k, "", 0, ""), a, TRUE, UnitRV, <<>>, F.ety) : a \in Answers}
      [] ob.o = "optval" -> {Ev("enter", ch.n, ch.loc, ob, NoDet, "", TRUE, UnitRV, <<>>, ch.ety)}
      [] ob.o = "handover" ->
            \* a child's error is handed to this frame's error type at the child's own position (any time before the frame returns)
            {Ev("mrg", 0, F.hand[ob.i].loc, ob, NoDet, a, TRUE, UnitRV, F.hand[ob.i].ids, F.ety) : a \in Answers}
      [] ob.o = "missing" ->
            IF FieldsOfNode(N, F.vi)[ob.i].missfn # ""
            THEN {EvCall(FieldsOfNode(N, F.vi)[ob.i].missfn, "missing", ob, <<StrRV(F.fkeys[ob.i]), LocRV(F.loc)>>, "exact", 0, F.loc, F.ety)}
            ELSE {Ev("err", 0, F.loc, ob, Det("missing", NullV, {}, F.fkeys[ob.i], "", "", 0, ""), a, TRUE, UnitRV, <<>>, F.ety) : a \in Answers}
      [] OTHER -> {}

PassThrough(N) == N.c \in {"opt", "box"}

\* what remains to be done by a frame whose obligations all succeeded: `map` on every field that has one (any order),
\* then `validate`, then return
PostSteps(F) ==
    LET N == Nodes[F.n]
        fs == FieldsOfNode(N, F.vi)
        mp == IF IsStructLike(N) /\ (N.c = "struct" \/ F.vi > 0) THEN {fi \in 1..Len(fs) : fs[fi].mapfn # "" /\ fi \notin F.mapped} ELSE {}
    IN IF mp # {} THEN {EvCall(fs[fi].mapfn, "map", NoOb, <<>>, "map", fi, F.loc, F.ety) : fi \in mp}
       ELSE IF N.validate /\ F.vst = "none" THEN {EvCall(N.vfn, "validate", NoOb, <<>>, "validate", 0, F.loc, F.ety)}
       ELSE {Ev("exit", F.n, F.loc, F.ob, NoDet, "", TRUE, F.okv, <<>>, F.ety)}

CanFail(k) == k \in {"try", "ctry", "validate"}
AlwaysErr(k) == k \in {"missing", "deny"}

Candidates(stack, cur) ==
    IF Len(stack) = 0 THEN {}
    ELSE LET F == stack[Len(stack)] N == Nodes[F.n] IN
    CASE F.ph = "leafok" -> PostSteps(F)
      [] F.ph = "bad"    -> {Ev("err", 0, F.eloc, NoOb, F.det, a, TRUE, UnitRV, <<>>, F.ety) : a \in Answers}
      [] F.ph = "fin"    -> {Ev("exit", F.n, F.loc, F.ob, NoDet, "", FALSE, UnitRV, <<>>, F.ety)}
      [] F.ph = "jbad"   -> {Ev("err", 0, F.loc, NoOb, Det("unexpected", NullV, {}, "", "", "", 0, ""), a, TRUE, UnitRV, <<>>, F.ety) : a \in Answers}
      [] F.ph = "tocall" -> {EvCall(F.fnp.f, F.fnp.k, F.fnp.ob, <<F.fnp.arg>>, "exact", 0, F.fnp.loc, F.ety)}
      [] F.ph = "fncall" -> (IF AlwaysErr(F.fnp.k) THEN {} ELSE {EvRet(F.fnp.f, TRUE, F.ety)})
                            \cup (IF CanFail(F.fnp.k) \/ AlwaysErr(F.fnp.k) THEN {EvRet(F.fnp.f, FALSE, F.ety)} ELSE {})
      \* a failed field try_from: its error is first merged under the FIELD's error type, then handed to the container's
      [] F.ph = "fnm1"   -> {Ev("mrg", 0, F.fnp.loc, NoOb, NoDet, a, TRUE, UnitRV, <<F.fnp.id>>, F.fnp.fety) : a \in Answers}
      [] F.ph = "fnm2"   -> {Ev("mrg", 0, F.fnp.loc, NoOb, NoDet, a, TRUE, UnitRV, <<F.fnp.id>>, F.ety) : a \in Answers}
      \* custom missing / unknown handlers: their error is merged at the container's location
      [] F.ph = "fnmA"   -> {Ev("mrg", 0, F.loc, NoOb, NoDet, a, TRUE, UnitRV, <<F.fnp.id>>, F.ety) : a \in Answers}
      \* validate / container try_from: merged at the container's location, the call fails whatever the answer
      [] F.ph = "fnm0"   -> {Ev("mrg", 0, F.loc, NoOb, NoDet, a, TRUE, UnitRV, <<F.fnp.id>>, F.ety) : a \in Answers}
      [] F.ph = "work"   ->
            LET hs == {ob \in F.pend : ob.o = "handover"}
                exiterr == {Ev("exit", F.n, F.loc, F.ob, NoDet, "", FALSE, UnitRV, <<>>, F.ety)}
            IN
            IF F.brk THEN exiterr                                     \* the stop was answered in this frame: it returns at once
            ELSE IF cur.stopped THEN                                  \* a stop was answered below and not overruled: only pass the error up
                 (UNION {StartOf(F, ob, cur.pk) : ob \in hs}) \cup (IF hs = {} THEN exiterr ELSE {})
            ELSE
            \* Freedom (cur.lax): a map entry whose key could not be parsed is a fault of the key; the value behind it may be left
            \* alone (the pinned code) or examined as well, any time before the map returns - its faults are real faults of the payload
            \* (before or after the key's own report: the two are independent)
            LET badpend == IF IsMapTarget(N) THEN {ob.i : ob \in {o \in F.pend : o.o = "entry" /\ ParseKey(cur.pk, N.name, F.val.e[o.i].k).z # "some"}} ELSE {}
                opt == IF cur.lax THEN UNION {StartOf(F, Ob("optval", j), cur.pk) : j \in (F.optv \cup badpend) \ F.optdone} ELSE {} IN
            IF F.pend = {} THEN (IF F.fail THEN exiterr ELSE PostSteps(F)) \cup opt
            ELSE LET obs == IF cur.canonical THEN {CHOOSE ob \in F.pend : \A o2 \in F.pend : ObLeq(ob, o2)} ELSE F.pend
                 IN UNION {StartOf(F, ob, cur.pk) : ob \in obs} \cup opt
      [] OTHER -> {}

(* -------------------------------- update -------------------------------- *)
AddSince(stack, id) == [j \in 1..Len(stack) |-> [stack[j] EXCEPT !.since = @ \cup {id}]]
Top(stack) == stack[Len(stack)]
SetTop(stack, F) == [stack EXCEPT ![Len(stack)] = F]
Pop(stack) == SubSeq(stack, 1, Len(stack) - 1)

\* enter child: push a frame (obligation ob of the parent is now in flight)
PushChild(stack, cur, n, loc, val, ob, ety) ==
    LET par == [Top(stack) EXCEPT !.pend = @ \ {ob}, !.optv = IF ob.o = "optval" THEN @ \ {ob.i} ELSE @,
                                  !.optdone = IF ob.o = "optval" THEN @ \cup {ob.i} ELSE @]
        cl  == Classify(n, val, loc, cur.pk)
        fr  == Frame(n, loc, val, ob, ety, cl)
        fr2 == IF IsMapTarget(Nodes[n]) /\ val.t = "map"
               THEN [fr EXCEPT !.parsed = [j \in 1..Len(val.e) |-> ParseKey(cur.pk, Nodes[n].name, val.e[j].k).v]] ELSE fr
    IN Append(SetTop(stack, par), fr2)

PushRoot(cur) ==
    LET cl == Classify(cur.ty, cur.val, <<>>, cur.pk)
        fr == Frame(cur.ty, <<>>, cur.val, NoOb, "E", cl)
    IN <<IF IsMapTarget(Nodes[cur.ty]) /\ cur.val.t = "map"
         THEN [fr EXCEPT !.parsed = [j \in 1..Len(cur.val.e) |-> ParseKey(cur.pk, Nodes[cur.ty].name, cur.val.e[j].k).v]] ELSE fr>>

\* a report (err event with answer a and fresh id) made by the top frame for obligation ob (NoOb: structural / leaf)
AfterErr(stack, id, ob, a) ==
    LET s1 == AddSince(stack, id) F == Top(s1) IN
    SetTop(s1, IF F.ph \in {"bad", "jbad"} THEN [F EXCEPT !.ph = "fin", !.fail = TRUE]
               ELSE [F EXCEPT !.pend = @ \ {ob}, !.fail = TRUE, !.brk = (a = "b"),
                              !.optv = IF ob.o = "entry" /\ IsMapTarget(Nodes[F.n]) /\ ob.i \notin F.optdone THEN @ \cup {ob.i} ELSE @])

AfterMrg(stack, ob, a) == SetTop(stack, [Top(stack) EXCEPT !.pend = @ \ {ob}, !.fail = TRUE, !.brk = (a = "b")])

\* exit of the top frame: the parent learns the result
AfterExit(stack, ok, v, ids) ==
    LET F == Top(stack) rest == Pop(stack) IN
    IF Len(rest) = 0 THEN rest
    ELSE LET P == Top(rest) PN == Nodes[P.n]
             fi == IF IsStructLike(PN) /\ F.ob.o = "entry" THEN RouteK(PN, P.vi, P.fkeys, P.val.e[F.ob.i].k) ELSE 0
             fld == IF fi > 0 THEN FieldsOfNode(PN, P.vi)[fi] ELSE [frm |-> "none", fn |-> "", ety |-> "E"]
         IN
         SetTop(rest,
            IF ok THEN
                 IF fld.frm # "none" THEN [P EXCEPT !.ph = "tocall", !.fnp = FnP(fld.frm, fld.fn, F.ob, v, F.loc, fld.ety, fi, 0)]
                 ELSE IF PN.c = "cfrom" THEN [P EXCEPT !.ph = "tocall", !.fnp = FnP(IF PN.cfrom = "try" THEN "ctry" ELSE "cfrom", PN.cfn, F.ob, v, P.loc, P.ety, 0, 0)]
                 ELSE [P EXCEPT !.res = Append(@, [ob |-> F.ob, v |-> v])]
            ELSE IF PassThrough(PN) \/ PN.c = "cfrom" THEN [P EXCEPT !.ph = "fin", !.fail = TRUE]
            ELSE [P EXCEPT !.hand = Append(@, [loc |-> F.loc, ids |-> ids, ety |-> F.ety]),
                           !.pend = @ \cup {Ob("handover", Len(P.hand) + 1)}, !.fail = TRUE])

\* a user function is called (c: the call candidate)
AfterCall(stack, c) ==
    LET F == Top(stack) IN
    SetTop(stack, IF F.ph = "tocall" THEN [F EXCEPT !.ph = "fncall"]
                  ELSE [F EXCEPT !.ph = "fncall", !.pend = @ \ {c.ob}, !.fnp = FnP(c.k, c.f, c.ob, UnitRV, c.loc, F.ety, c.fi, 0)])

\* ... and returns (ok with value v, or an error that will become report `id` when it is merged)
AfterRet(stack, ok, v, id) ==
    LET F == Top(stack) k == F.fnp.k IN
    SetTop(stack,
        IF ok THEN
            CASE k \in {"from", "try", "cfrom", "ctry"} -> [F EXCEPT !.ph = "work", !.res = Append(@, [ob |-> F.fnp.ob, v |-> v])]
              [] k = "map"      -> [F EXCEPT !.ph = F.phb,
                                             !.mapped = @ \cup {F.fnp.fi}, !.mres = Append(@, [fi |-> F.fnp.fi, v |-> v])]
              [] k = "validate" -> [F EXCEPT !.ph = F.phb, !.vst = "ok", !.fv = v]
              [] OTHER -> F
        ELSE
            CASE k = "try" -> [F EXCEPT !.ph = "fnm1", !.fnp = [@ EXCEPT !.id = id]]
              [] k \in {"ctry", "validate"} -> [F EXCEPT !.ph = "fnm0", !.fnp = [@ EXCEPT !.id = id]]
              [] OTHER -> [F EXCEPT !.ph = "fnmA", !.fnp = [@ EXCEPT !.id = id]])

\* the merges that follow a failed user function
AfterFnMrg(stack, a) ==
    LET F == Top(stack) IN
    CASE F.ph = "fnm1" -> SetTop(AddSince(stack, F.fnp.id), [Top(AddSince(stack, F.fnp.id)) EXCEPT !.ph = "fnm2", !.fail = TRUE, !.brk = (a = "b")])
      [] F.ph = "fnm2" -> SetTop(stack, [F EXCEPT !.ph = "work", !.fail = TRUE, !.brk = (F.brk \/ a = "b")])
      [] F.ph = "fnmA" -> SetTop(AddSince(stack, F.fnp.id), [Top(AddSince(stack, F.fnp.id)) EXCEPT !.ph = "work", !.fail = TRUE, !.brk = (a = "b")])
      [] F.ph = "fnm0" -> SetTop(AddSince(stack, F.fnp.id), [Top(AddSince(stack, F.fnp.id)) EXCEPT !.ph = "fin", !.fail = TRUE])

VSetAsSeq(S) == LET RECURSIVE f(_) f(T) == IF T = {} THEN <<>> ELSE LET x == CHOOSE y \in T : TRUE IN <<x>> \o f(T \ {x}) IN f(S)
VMax(S) == CHOOSE x \in S : \A y \in S : x >= y
(* ------------- declarative value semantics: ValueOf (C06 .. C10, C15) ---- *)
RECURSIVE ValueOf(_, _, _)
ValueOf(n, val, pk) ==
    LET N == Nodes[n] cl == Classify(n, val, <<>>, pk) F == Frame(n, <<>>, val, NoOb, "E", cl) IN
    CASE cl.ph = "leafok" -> cl.okv
      [] cl.ph # "work" -> UnitRV                      \* a payload with a fault here has no value
      [] N.c \in {"vec", "arr", "tup"} -> RV("list", FALSE, 0, DZero, "", "", [i \in 1..Len(val.e) |-> ValueOf(Child(F, Ob("elem", i)).n, val.e[i], pk)])
      [] N.c \in {"hset", "bset"} -> RV("set", FALSE, 0, DZero, "", "", VSetAsSeq({ValueOf(N.kids[1], val.e[i], pk) : i \in 1..Len(val.e)}))
      [] N.c = "opt" -> RV("some", FALSE, 0, DZero, "", "", <<ValueOf(N.kids[1], val, pk)>>)
      [] N.c = "box" -> ValueOf(N.kids[1], val, pk)
      [] N.c \in {"hmap", "bmap"} ->
            RV("map", FALSE, 0, DZero, "", "", VSetAsSeq({[k |-> ParseKey(pk, N.name, val.e[j].k).v, v |-> ValueOf(N.kids[1], val.e[j].v, pk)] : j \in 1..Len(val.e)}))
      [] N.c \in {"struct", "enum"} ->
            LET fs == FieldsOfNode(N, cl.vi)
                ms(fi) == {j \in 1..Len(val.e) : Ob("entry", j) \in cl.pend /\ RouteK(N, cl.vi, F.fkeys, val.e[j].k) = fi}
                fv(fi) == IF ms(fi) = {} THEN fs[fi].dval ELSE ValueOf(fs[fi].node, val.e[VMax(ms(fi))].v, pk)
            IN RV(IF N.c = "struct" THEN "struct" ELSE "variant", FALSE, 0, DZero, "",
                  IF N.c = "struct" THEN N.name ELSE N.variants[cl.vi].ident,
                  [fi \in 1..Len(fs) |-> [k |-> fs[fi].ident, v |-> fv(fi)]])
      [] OTHER -> UnitRV

\* C15 (and C06 .. C10): whatever order the members were examined in, the result is the order-free ValueOf,
\* and (Inv_C02) the report bag is the order-free Faults.  Sets inside values are compared as sets.
RECURSIVE EqMod(_, _)
EqMod(a, b) ==
    IF a.r # b.r \/ a.name # b.name THEN FALSE
    ELSE CASE a.r \in {"set", "map"} -> /\ Len(a.e) = Len(b.e)
                                         /\ \A i \in 1..Len(a.e) : \E j \in 1..Len(b.e) :
                                               IF a.r = "map" THEN a.e[i].k = b.e[j].k /\ EqMod(a.e[i].v, b.e[j].v) ELSE EqMod(a.e[i], b.e[j])
           [] a.r \in {"list", "some"} -> Len(a.e) = Len(b.e) /\ \A i \in 1..Len(a.e) : EqMod(a.e[i], b.e[i])
           [] a.r \in {"struct", "variant"} -> Len(a.e) = Len(b.e) /\ \A i \in 1..Len(a.e) : a.e[i].k = b.e[i].k /\ EqMod(a.e[i].v, b.e[i].v)
           [] a.r = "float" -> TRUE                                     \* the bits of a float are C05's business
           [] a.r = "json" -> Len(a.e) = 1 /\ Len(b.e) = 1 /\ DocEq(b.e[1], a.e[1])
           [] OTHER -> a = b

(* ------------------- declarative reference semantics -------------------- *)
\* Faults(n, val, loc): the reports a keep-going error type must receive, as a sequence (compared as a bag).
\* A report descriptor is [k, loc, s, x, act, acc].
Desc(k, loc, s, x, act, acc) == [k |-> k, loc |-> loc, s |-> s, x |-> x, act |-> act, acc |-> acc]
DescOfDet(det, loc) ==
    CASE det.k = "kind"         -> Desc("kind", loc, "", 0, det.actual, det.accepted)
      [] det.k = "missing"      -> Desc("missing", loc, det.field, 0, NullV, {})
      [] det.k = "unknownkey"   -> Desc("unknownkey", loc, det.key, 0, NullV, SeqToSet(det.accepted))
      [] det.k = "unknownvalue" -> Desc("unknownvalue", loc, det.value, 0, NullV, SeqToSet(det.accepted))
      [] det.k = "badlen"       -> Desc("badlen", loc, "", det.expected, det.actual, {})
      [] OTHER                  -> Desc("unexpected", loc, "", 0, NullV, {})

RECURSIVE Flatten(_)
Flatten(ss) == IF Len(ss) = 0 THEN <<>> ELSE ss[1] \o Flatten(SubSeq(ss, 2, Len(ss)))

\* locations (below loc) of the floats a JSON document cannot hold, inside a value handed to a serde_json::Value target
RECURSIVE NonFiniteLeaves(_, _)
NonFiniteLeaves(v, loc) ==
    CASE v.t = "float" -> IF FiniteBits(v.s) THEN {} ELSE {loc}
      [] v.t = "seq"   -> UNION {NonFiniteLeaves(v.e[j], Append(loc, IdxStep(j - 1))) : j \in 1..Len(v.e)}
      [] v.t = "map"   -> UNION {NonFiniteLeaves(v.e[j].v, Append(loc, KeyStep(v.e[j].k))) : j \in 1..Len(v.e)}
      [] OTHER -> {}
LeavesAsSeq(S) == LET RECURSIVE f(_) f(T) == IF T = {} THEN <<>> ELSE LET x == CHOOSE y \in T : TRUE IN <<x>> \o f(T \ {x}) IN f(S)

\* fnf: the user-function failures of the run (environment facts): set of [f, loc, j] (j: member index for a field conversion, else 0)
\* A payload in which some object presents a key twice (only a second value source can) has two positions with one location: the
\* facts of a run are then ambiguous, and the comparison of a run's reports with Faults is only made when no such fact was needed.
RECURSIVE HasDupKeys(_)
HasDupKeys(v) ==
    CASE v.t = "seq" -> \E j \in 1..Len(v.e) : HasDupKeys(v.e[j])
      [] v.t = "map" -> Cardinality({v.e[j].k : j \in 1..Len(v.e)}) < Len(v.e) \/ \E j \in 1..Len(v.e) : HasDupKeys(v.e[j].v)
      [] OTHER -> FALSE
FactsUnambiguous(val, fnf) == fnf = {} \/ ~HasDupKeys(val)
FnDesc(f, loc) == Desc("fn", loc, f, 0, NullV, {})
RECURSIVE Faults(_, _, _, _, _)
Faults(n, val, loc, pk, fnf) ==
    LET N == Nodes[n] cl == Classify(n, val, loc, pk)
        base ==
          CASE cl.ph = "bad"    -> <<DescOfDet(cl.det, cl.eloc)>>
            \* a unit variant under deny_unknown_fields that the run treated like a field-less struct-like variant (see Trace_core!LaxUnit)
            [] cl.ph = "leafok" -> IF N.c = "enum" /\ [f |-> "unitdeny", loc |-> loc, j |-> 0] \in fnf
                                   THEN LET tj == Min(TagMembers(N, val))
                                            obs == SetToSeqByRank(StructPend(N, cl.vi, val, tj))
                                        IN [j \in 1..Len(obs) |-> IF N.deny = "fn" THEN FnDesc(N.denyfn, loc)
                                                                  ELSE Desc("unknownkey", loc, val.e[obs[j].i].k, 0, NullV, {})]
                                   ELSE <<>>
            [] cl.ph = "jbad"   -> LET ls == LeavesAsSeq(NonFiniteLeaves(val, loc)) IN      \* one report per float that JSON cannot hold
                                   [j \in 1..Len(ls) |-> Desc("unexpected", ls[j], "", 0, NullV, {})]
            [] cl.ph = "work"   ->
                  LET F == Frame(n, loc, val, NoOb, "E", cl)
                      one(ob) ==
                          LET ch == Child(F, ob) IN
                          CASE ob.o \in {"elem", "inner"} -> Faults(ch.n, ch.val, ch.loc, pk, fnf)
                            [] ob.o = "entry" ->
                                  IF IsMapTarget(N)
                                  THEN IF ParseKey(pk, N.name, val.e[ob.i].k).z = "some" THEN Faults(ch.n, ch.val, ch.loc, pk, fnf)
                                       \* the key is the fault; when the run examined the value behind it as well (a fact of the run,
                                       \* recorded in fnf like the failures of user functions), the value's faults count too
                                       ELSE <<Desc("unexpected", loc, "", 0, NullV, {})>>
                                            \o (IF [f |-> "optval", loc |-> ch.loc, j |-> ob.i] \in fnf THEN Faults(ch.n, ch.val, ch.loc, pk, fnf) ELSE <<>>)
                                  ELSE IF ch.has
                                       THEN LET inner == Faults(ch.n, ch.val, ch.loc, pk, fnf)
                                                fld == FieldsOfNode(N, cl.vi)[RouteK(N, cl.vi, F.fkeys, val.e[ob.i].k)]
                                            IN IF inner # <<>> THEN inner
                                               \* a conversion only runs on a good intermediate value; its failure is one report at the field
                                               ELSE IF fld.frm = "try" /\ [f |-> fld.fn, loc |-> ch.loc, j |-> ob.i] \in fnf THEN <<FnDesc(fld.fn, ch.loc)>>
                                               ELSE <<>>
                                       ELSE IF N.deny = "fn" THEN <<FnDesc(N.denyfn, loc)>>
                                       ELSE <<Desc("unknownkey", loc, val.e[ob.i].k, 0, NullV, SeqToSet(AcceptedK(N, cl.vi, F.fkeys)))>>
                            [] ob.o = "missing" ->
                                  IF FieldsOfNode(N, cl.vi)[ob.i].missfn # "" THEN <<FnDesc(FieldsOfNode(N, cl.vi)[ob.i].missfn, loc)>>
                                  ELSE <<Desc("missing", loc, F.fkeys[ob.i], 0, NullV, {})>>
                            [] OTHER -> <<>>
                      order == SetToSeqByRank(cl.pend)
                  IN Flatten([j \in 1..Len(order) |-> one(order[j])])
            [] OTHER -> <<>>
        \* a container-level try_from runs only when its input deserialized; validate only when everything before succeeded
        withc == IF base = <<>> /\ N.c = "cfrom" /\ N.cfrom = "try" /\ [f |-> N.cfn, loc |-> loc, j |-> 0] \in fnf THEN <<FnDesc(N.cfn, loc)>> ELSE base
    IN IF withc = <<>> /\ N.validate /\ [f |-> N.vfn, loc |-> loc, j |-> 0] \in fnf THEN <<FnDesc(N.vfn, loc)>> ELSE withc
=============================================================================
