------------------------------ MODULE MC_core ------------------------------
(***************************************************************************)
(* Generative model checking of the abstract deserialization machine.      *)
(*                                                                         *)
(* Inputs (catalogue entry, payload, parse table of its keys) are read     *)
(* from a file produced by the drivers; for each input TLC explores every  *)
(* order in which containers may discharge their obligations (unless       *)
(* Canonical) and every Continue / Break answer of the error type.  The    *)
(* invariants are worded independently of Candidates: over the set of      *)
(* reports made, the final result, and the declarative reference semantics *)
(* Faults / ValueOf.                                                       *)
(***************************************************************************)
EXTENDS Deserr, IOUtils

CONSTANT Canonical        \* TRUE: members in source order, then missing checks (mirrors the current code; emits REPLAY)

Inputs == ndJsonDeserialize(IOEnv.MCIN)

VARIABLES stack, cur, made, reps, hist, out, phase, stopped, newAfterStop
mvars == <<stack, cur, made, reps, hist, out, phase, stopped, newAfterStop>>

MkCur(i) == [idx |-> i, ty |-> Inputs[i].ty, val |-> Inputs[i].val, pk |-> Inputs[i].pk, canonical |-> Canonical]

NoOut == [z |-> "none", val |-> UnitRV, ids |-> <<>>]

Init == /\ cur \in {MkCur(i) : i \in 1..Len(Inputs)}
        /\ stack = PushRoot(cur)
        /\ made = {} /\ reps = <<>> /\ hist = <<>> /\ out = NoOut /\ phase = "running"
        /\ stopped = FALSE /\ newAfterStop = 0

SetAsSeq(S) == LET RECURSIVE f(_) f(T) == IF T = {} THEN <<>> ELSE LET x == CHOOSE y \in T : TRUE IN <<x>> \o f(T \ {x}) IN f(S)
Max(S) == CHOOSE x \in S : \A y \in S : x >= y

(* the value a frame returns when everything below succeeded (constructive twin of Deserr!ValueAgrees) *)
ValueOfFrame(F) ==
    LET N == Nodes[F.n] IN
    CASE F.ph = "leafok" -> F.okv
      [] N.c \in {"vec", "arr", "tup"} -> RV("list", FALSE, 0, DZero, "", "", [i \in 1..Len(F.val.e) |-> ResOf(F, Ob("elem", i))])
      [] N.c \in {"hset", "bset"} -> RV("set", FALSE, 0, DZero, "", "", SetAsSeq({ResOf(F, Ob("elem", i)) : i \in 1..Len(F.val.e)}))
      [] N.c = "opt" -> RV("some", FALSE, 0, DZero, "", "", <<ResOf(F, Ob("inner", 1))>>)
      [] N.c = "box" -> ResOf(F, Ob("inner", 1))
      [] N.c \in {"hmap", "bmap"} ->
            LET keys == {F.parsed[j] : j \in 1..Len(F.val.e)}
                last(k) == Max({j \in 1..Len(F.val.e) : F.parsed[j] = k})
            IN RV("map", FALSE, 0, DZero, "", "", SetAsSeq({[k |-> k, v |-> ResOf(F, Ob("entry", last(k)))] : k \in keys}))
      [] N.c \in {"struct", "enum"} ->
            LET fs == FieldsOfNode(N, F.vi)
                fv(fi) == LET ms == {j \in 1..Len(F.val.e) : HasRes(F, Ob("entry", j)) /\ Route(N, F.vi, F.val.e[j].k) = fi}
                          IN IF ms = {} THEN fs[fi].dval ELSE ResOf(F, Ob("entry", Max(ms)))
            IN RV(IF N.c = "struct" THEN "struct" ELSE "variant", FALSE, 0, DZero, "",
                  IF N.c = "struct" THEN N.name ELSE N.variants[F.vi].ident,
                  [fi \in 1..Len(fs) |-> [k |-> fs[fi].ident, v |-> fv(fi)]])
      [] OTHER -> UnitRV

NextId == Cardinality(made) + 1

Take(c) ==
    CASE c.e = "enter" ->
            /\ stack' = PushChild(stack, cur, c.n, c.loc, Child(Top(stack), c.ob).val, c.ob, c.ety)
            /\ UNCHANGED <<made, reps, hist, out, phase, stopped, newAfterStop>>
      [] c.e = "err" ->
            /\ stack' = AfterErr(stack, NextId, c.ob, c.ans)
            /\ made' = made \cup {NextId}
            /\ reps' = Append(reps, DescOfDet(c.det, c.loc))
            /\ hist' = Append(hist, c.ans)
            /\ newAfterStop' = IF stopped THEN newAfterStop + 1 ELSE 0
            /\ stopped' = (c.ans = "b")
            /\ UNCHANGED <<out, phase>>
      [] c.e = "mrg" ->
            /\ stack' = AfterMrg(stack, c.ans)
            /\ hist' = Append(hist, c.ans)
            /\ stopped' = (stopped /\ c.ans = "b")
            /\ newAfterStop' = IF c.ans = "b" THEN newAfterStop ELSE 0
            /\ UNCHANGED <<made, reps, out, phase>>
      [] c.e = "exit" ->
            LET F == Top(stack)
                v == IF c.ok THEN ValueOfFrame(F) ELSE UnitRV
                ids == SetAsSeq(F.since)
            IN /\ stack' = AfterExit(stack, c.ok, v, ids)
               /\ phase' = IF Len(stack) = 1 THEN "done" ELSE phase
               /\ out' = IF Len(stack) = 1 THEN [z |-> IF c.ok THEN "ok" ELSE "err", val |-> v, ids |-> ids] ELSE out
               /\ UNCHANGED <<made, reps, hist, stopped, newAfterStop>>

Next == \/ /\ phase = "running"
           /\ \E c \in Candidates(stack, cur) : Take(c)
           /\ UNCHANGED cur
        \/ /\ phase = "done" /\ UNCHANGED mvars          \* the call has returned

Spec == Init /\ [][Next]_mvars
FairSpec == Spec /\ WF_mvars(Next)

(* ----------------------------- invariants ------------------------------- *)
AllC == \A j \in 1..Len(hist) : hist[j] = "c"
AllB == \A j \in 1..Len(hist) : hist[j] = "b"
Done == phase = "done"

\* C01: Ok only when nothing was reported; Err is built from every report, none twice
Inv_C01 == Done => /\ (out.z = "ok" => made = {})
                   /\ (out.z = "err" => SameBag(out.ids, SetAsSeq(made)) /\ made # {})
\* ... and locally: a frame that is about to return Ok has seen no report since it was entered
Inv_C01_local == \A c \in Candidates(stack, cur) : (c.e = "exit" /\ c.ok) => Top(stack).since = {}

\* C02: a keep-going error type receives exactly the independent faults of the payload, whatever the order
FaultsOfInput == Faults(cur.ty, cur.val, <<>>, cur.pk)
Inv_C02 == (Done /\ AllC) => SameBag(reps, FaultsOfInput)
\* ... and a frame never returns while obligations are pending unless a stop was answered
Inv_C02_local == \A c \in Candidates(stack, cur) : c.e = "exit" => (Top(stack).pend = {} \/ Top(stack).brk \/ Top(stack).ph \in {"fin", "leafok"})

\* C03: once stop is answered and every later answer is stop too, no new report is produced
Inv_C03 == stopped => newAfterStop = 0
\* ... the always-stop run yields exactly the first report of the keep-going run (canonical order makes "first" meaningful)
IsSubseq(a, b) == LET RECURSIVE f(_, _) f(i, j) == IF i > Len(a) THEN TRUE ELSE IF j > Len(b) THEN FALSE
                                                  ELSE IF a[i] = b[j] THEN f(i + 1, j + 1) ELSE f(i, j + 1) IN f(1, 1)
Inv_C03_first == (Canonical /\ Done /\ out.z = "err") =>
                    /\ IsSubseq(reps, FaultsOfInput)
                    /\ reps[1] = FaultsOfInput[1]
                    /\ (AllB => Len(reps) = 1)

\* C04: every report is located inside the payload, and a hand-over location is an ancestor-or-self of what is handed over
RECURSIVE Resolves(_, _)
Resolves(v, loc) ==
    IF Len(loc) = 0 THEN TRUE
    ELSE LET st == loc[1] rest == SubSeq(loc, 2, Len(loc)) IN
         IF st.t = "idx" THEN v.t = "seq" /\ st.i + 1 <= Len(v.e) /\ Resolves(v.e[st.i + 1], rest)
         ELSE v.t = "map" /\ \E j \in 1..Len(v.e) : v.e[j].k = st.k /\ Resolves(v.e[j].v, rest)
IsPrefixOf(a, b) == Len(a) <= Len(b) /\ SubSeq(b, 1, Len(a)) = a
\* the tag of an enum is removed before it is reported as having the wrong kind, but it is a position of the payload
Inv_C04 == /\ \A j \in 1..Len(reps) : Resolves(cur.val, reps[j].loc)
           /\ \A j \in 1..Len(stack) : IsPrefixOf(stack[j].loc, Top(stack).loc)
           /\ \A c \in Candidates(stack, cur) : c.e = "mrg" => IsPrefixOf(Top(stack).loc, c.loc)

\* C12: the machine never gets stuck before it has returned (checked as absence of deadlock) and always returns
Inv_C12 == phase = "running" => Candidates(stack, cur) # {}
Termination == <>(phase = "done")

\* the two wordings of "the value returned" agree
Inv_Value == \A c \in Candidates(stack, cur) : (c.e = "exit" /\ c.ok) => ValueAgrees(Top(stack), ValueOfFrame(Top(stack)))

(* ------------- declarative value semantics: ValueOf (C06 .. C10, C15) ---- *)
RECURSIVE ValueOf(_, _, _)
ValueOf(n, val, pk) ==
    LET N == Nodes[n] cl == Classify(n, val, <<>>, pk) F == Frame(n, <<>>, val, NoOb, "E", cl) IN
    CASE cl.ph = "leafok" -> cl.okv
      [] N.c \in {"vec", "arr", "tup"} -> RV("list", FALSE, 0, DZero, "", "", [i \in 1..Len(val.e) |-> ValueOf(Child(F, Ob("elem", i)).n, val.e[i], pk)])
      [] N.c \in {"hset", "bset"} -> RV("set", FALSE, 0, DZero, "", "", SetAsSeq({ValueOf(N.kids[1], val.e[i], pk) : i \in 1..Len(val.e)}))
      [] N.c = "opt" -> RV("some", FALSE, 0, DZero, "", "", <<ValueOf(N.kids[1], val, pk)>>)
      [] N.c = "box" -> ValueOf(N.kids[1], val, pk)
      [] N.c \in {"hmap", "bmap"} ->
            RV("map", FALSE, 0, DZero, "", "", SetAsSeq({[k |-> ParseKey(pk, N.name, val.e[j].k).v, v |-> ValueOf(N.kids[1], val.e[j].v, pk)] : j \in 1..Len(val.e)}))
      [] N.c \in {"struct", "enum"} ->
            LET fs == FieldsOfNode(N, cl.vi)
                ms(fi) == {j \in 1..Len(val.e) : Ob("entry", j) \in cl.pend /\ Route(N, cl.vi, val.e[j].k) = fi}
                fv(fi) == IF ms(fi) = {} THEN fs[fi].dval ELSE ValueOf(fs[fi].node, val.e[Max(ms(fi))].v, pk)
            IN RV(IF N.c = "struct" THEN "struct" ELSE "variant", FALSE, 0, DZero, "",
                  IF N.c = "struct" THEN N.name ELSE N.variants[cl.vi].ident,
                  [fi \in 1..Len(fs) |-> [k |-> fs[fi].ident, v |-> fv(fi)]])
      [] OTHER -> UnitRV

\* C15 (and C06 .. C10): whatever order the members were examined in, the result is the order-free ValueOf,
\* and (Inv_C02) the report bag is the order-free Faults.  Sets inside values are compared as sets.
RECURSIVE EqMod(_, _)
EqMod(a, b) ==
    IF a.r # b.r \/ a.name # b.name THEN FALSE
    ELSE CASE a.r \in {"set", "map"} -> /\ Len(a.e) = Len(b.e)
                                         /\ \A i \in 1..Len(a.e) : \E j \in 1..Len(b.e) :
                                               IF a.r = "map" THEN a.e[i].k = b.e[j].k /\ EqMod(a.e[i].v, b.e[j].v) ELSE EqMod(a.e[i], b.e[j])
           [] a.r \in {"list", "some"} -> Len(a.e) = Len(b.e) /\ \A i \in 1..Len(a.e) : EqMod(a.e[i], b.e[i])
           [] a.r \in {"struct", "variant"} -> Len(a.e) = Len(b.e) /\ \A i \in 1..Len(a.e) : a.e[i].k = b.e[i].k /\ EqMod(a.e[i].v, b.e[i].v)
           [] OTHER -> a = b
Inv_C15 == (Done /\ out.z = "ok") => EqMod(out.val, ValueOf(cur.ty, cur.val, cur.pk))
\* a successful call means the payload has no fault, and vice versa under keep-going
Inv_OkIffNoFaults == (Done /\ AllC) => ((out.z = "ok") <=> (FaultsOfInput = <<>>))

EmitReplay == (Done /\ Canonical) => PrintT(<<"REPLAY", ToJson([idx |-> cur.idx, hist |-> hist])>>)
=============================================================================
