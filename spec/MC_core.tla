------------------------------ MODULE MC_core ------------------------------
(***************************************************************************)
(* Generative model checking of the abstract deserialization machine.      *)
(*                                                                         *)
(* Inputs (catalogue entry, payload, parse table of its keys) are read     *)
(* from a file produced by the drivers; for each input TLC explores every  *)
(* order in which containers may discharge their obligations (unless       *)
(* Canonical) and every Continue / Break answer of the error type.  The    *)
(* invariants are worded independently of Candidates: over the set of      *)
(* reports made, the final result, and the declarative reference semantics *)
(* Faults / ValueOf.                                                       *)
(***************************************************************************)
EXTENDS Deserr

CONSTANT Lax              \* TRUE: the freedoms the properties leave are explored too (value behind an unparsable map key examined)
CONSTANT Canonical        \* TRUE: members in source order, then missing checks (mirrors the current code; emits REPLAY)

Inputs == ndJsonDeserialize(IOEnv.MCIN)

VARIABLES stack, cur, made, reps, hist, out, phase, stopped, newAfterStop, idc, fnf, usedfn
mvars == <<stack, cur, made, reps, hist, out, phase, stopped, newAfterStop, idc, fnf, usedfn>>

\* the declarative fault list of an input is computed once, when the input is chosen (it only depends on the run through the
\* failures of user functions, fnf)
MkCur(i) == [idx |-> i, ty |-> Inputs[i].ty, val |-> Inputs[i].val, pk |-> Inputs[i].pk, canonical |-> Canonical, stopped |-> FALSE, lax |-> Lax,
             faults0 |-> Faults(Inputs[i].ty, Inputs[i].val, <<>>, Inputs[i].pk, {})]

NoOut == [z |-> "none", val |-> UnitRV, ids |-> <<>>]
\* the environment the machine sees now: the last answer of the error type was "stop" and nothing told it to continue since
CurNow == [cur EXCEPT !.stopped = stopped]

Init == /\ cur \in {MkCur(i) : i \in 1..Len(Inputs)}
        /\ stack = PushRoot(cur)
        /\ made = {} /\ reps = <<>> /\ hist = <<>> /\ out = NoOut /\ phase = "running"
        /\ stopped = FALSE /\ newAfterStop = 0
        /\ idc = 0 /\ fnf = {} /\ usedfn = FALSE

SetAsSeq(S) == LET RECURSIVE f(_) f(T) == IF T = {} THEN <<>> ELSE LET x == CHOOSE y \in T : TRUE IN <<x>> \o f(T \ {x}) IN f(S)
Max(S) == CHOOSE x \in S : \A y \in S : x >= y

(* the value a frame returns when everything below succeeded (constructive twin of Deserr!ValueAgrees) *)
ValueOfFrame(F) ==
    LET N == Nodes[F.n] IN
    CASE F.vst = "ok" -> F.fv
      [] F.ph = "leafok" -> F.okv
      [] N.c \in {"vec", "arr", "tup"} -> RV("list", FALSE, 0, DZero, "", "", [i \in 1..Len(F.val.e) |-> ResOf(F, Ob("elem", i))])
      [] N.c \in {"hset", "bset"} -> RV("set", FALSE, 0, DZero, "", "", SetAsSeq({ResOf(F, Ob("elem", i)) : i \in 1..Len(F.val.e)}))
      [] N.c = "opt" -> RV("some", FALSE, 0, DZero, "", "", <<ResOf(F, Ob("inner", 1))>>)
      [] N.c \in {"box", "cfrom"} -> ResOf(F, Ob("inner", 1))
      [] N.c \in {"hmap", "bmap"} ->
            LET keys == {F.parsed[j] : j \in 1..Len(F.val.e)}
                last(k) == Max({j \in 1..Len(F.val.e) : F.parsed[j] = k})
            IN RV("map", FALSE, 0, DZero, "", "", SetAsSeq({[k |-> k, v |-> ResOf(F, Ob("entry", last(k)))] : k \in keys}))
      [] N.c \in {"struct", "enum"} ->
            LET fs == FieldsOfNode(N, F.vi)
                fv(fi) == LET ms == {j \in 1..Len(F.val.e) : HasRes(F, Ob("entry", j)) /\ RouteK(N, F.vi, F.fkeys, F.val.e[j].k) = fi}
                          IN IF fi \in F.mapped THEN F.mres[CHOOSE j \in 1..Len(F.mres) : F.mres[j].fi = fi].v
                             ELSE IF ms = {} THEN fs[fi].dval ELSE ResOf(F, Ob("entry", Max(ms)))
            IN RV(IF N.c = "struct" THEN "struct" ELSE "variant", FALSE, 0, DZero, "",
                  IF N.c = "struct" THEN N.name ELSE N.variants[F.vi].ident,
                  [fi \in 1..Len(fs) |-> [k |-> fs[fi].ident, v |-> fv(fi)]])
      [] OTHER -> UnitRV

NextId == idc + 1
WrapRV(kid, v) == RV("wrap", FALSE, 0, DZero, "", "w" \o NatText(kid), <<v>>)
\* what the catalogue's user functions return on success (the environment of the machine)
RetValue(F) ==
    LET N == Nodes[F.n] k == F.fnp.k IN
    CASE k \in {"from", "try"}   -> WrapRV(FieldsOfNode(N, F.vi)[F.fnp.fi].node, F.fnp.arg)
      [] k \in {"cfrom", "ctry"} -> RV("struct", FALSE, 0, DZero, "", N.name, <<[k |-> "v", v |-> WrapRV(N.kids[1], F.fnp.arg)]>>)
      [] k = "map"               -> CHOOSE v \in UnmappedFieldValue(F, N, F.fnp.fi) : TRUE
      [] k = "validate"          -> ValueOfFrame(F)
      [] OTHER -> UnitRV

Take(c) ==
    CASE c.e = "enter" ->
            /\ stack' = PushChild(stack, cur, c.n, c.loc, Child(Top(stack), c.ob).val, c.ob, c.ety)
            /\ fnf' = IF c.ob.o = "optval" THEN fnf \cup {[f |-> "optval", loc |-> c.loc, j |-> c.ob.i]} ELSE fnf
            /\ UNCHANGED <<made, reps, hist, out, phase, stopped, newAfterStop, idc, usedfn>>
      [] c.e = "err" ->
            /\ stack' = AfterErr(stack, NextId, c.ob, c.ans)
            /\ made' = made \cup {NextId}
            /\ reps' = Append(reps, DescOfDet(c.det, c.loc))
            /\ hist' = Append(hist, c.ans)
            /\ newAfterStop' = IF stopped THEN newAfterStop + 1 ELSE 0
            /\ stopped' = (c.ans = "b")
            /\ idc' = idc + 1
            /\ UNCHANGED <<out, phase, fnf, usedfn>>
      [] c.e = "mrg" /\ c.ob.o = "handover" ->
            /\ stack' = AfterMrg(stack, c.ob, c.ans)
            /\ hist' = Append(hist, c.ans)
            /\ stopped' = (c.ans = "b")
            /\ newAfterStop' = IF c.ans = "b" THEN newAfterStop ELSE 0
            /\ UNCHANGED <<made, reps, out, phase, idc, fnf, usedfn>>
      [] c.e = "mrg" /\ c.ob.o # "handover" ->
            \* the error of a user function enters the error type; except for the second merge of a field try_from this is a new report
            LET F == Top(stack) isrep == F.ph # "fnm2" IN
            /\ stack' = AfterFnMrg(stack, c.ans)
            /\ made' = IF isrep THEN made \cup {F.fnp.id} ELSE made
            /\ reps' = IF isrep THEN Append(reps, FnDesc(F.fnp.f, c.loc)) ELSE reps
            /\ hist' = Append(hist, c.ans)
            /\ newAfterStop' = IF isrep THEN (IF stopped THEN newAfterStop + 1 ELSE 0) ELSE (IF c.ans = "b" THEN newAfterStop ELSE 0)
            /\ stopped' = (c.ans = "b")
            /\ UNCHANGED <<out, phase, idc, fnf, usedfn>>
      [] c.e = "call" ->
            /\ stack' = AfterCall(stack, c)
            /\ usedfn' = TRUE
            /\ UNCHANGED <<made, reps, hist, out, phase, stopped, newAfterStop, idc, fnf>>
      [] c.e = "ret" ->
            LET F == Top(stack) IN
            /\ stack' = AfterRet(stack, c.ok, IF c.ok THEN RetValue(F) ELSE UnitRV, NextId)
            /\ idc' = IF c.ok THEN idc ELSE idc + 1
            /\ fnf' = IF ~c.ok /\ CanFail(F.fnp.k) THEN fnf \cup {[f |-> c.f, loc |-> IF F.fnp.k = "try" THEN F.fnp.loc ELSE F.loc, j |-> IF F.fnp.k = "try" THEN F.fnp.ob.i ELSE 0]} ELSE fnf
            /\ UNCHANGED <<made, reps, hist, out, phase, stopped, newAfterStop, usedfn>>
      [] c.e = "exit" ->
            LET F == Top(stack)
                v == IF c.ok THEN ValueOfFrame(F) ELSE UnitRV
                ids == SetAsSeq(F.since)
            IN /\ stack' = AfterExit(stack, c.ok, v, ids)
               /\ phase' = IF Len(stack) = 1 THEN "done" ELSE phase
               /\ out' = IF Len(stack) = 1 THEN [z |-> IF c.ok THEN "ok" ELSE "err", val |-> v, ids |-> ids] ELSE out
               /\ UNCHANGED <<made, reps, hist, stopped, newAfterStop, idc, fnf, usedfn>>

Next == \/ /\ phase = "running"
           /\ \E c \in Candidates(stack, CurNow) : Take(c)
           /\ UNCHANGED cur
        \/ /\ phase = "done" /\ UNCHANGED mvars          \* the call has returned

Spec == Init /\ [][Next]_mvars
FairSpec == Spec /\ WF_mvars(Next)

(* ----------------------------- invariants ------------------------------- *)
AllC == \A j \in 1..Len(hist) : hist[j] = "c"
AllB == \A j \in 1..Len(hist) : hist[j] = "b"
Done == phase = "done"

\* C01: Ok only when nothing was reported; Err is built from every report, none twice
Inv_C01 == Done => /\ (out.z = "ok" => made = {})
                   /\ (out.z = "err" => SameBag(out.ids, SetAsSeq(made)) /\ made # {})
\* ... and locally: a frame that is about to return Ok has seen no report since it was entered
Inv_C01_local == \A c \in Candidates(stack, CurNow) : (c.e = "exit" /\ c.ok) => Top(stack).since = {}

\* C02: a keep-going error type receives exactly the independent faults of the payload, whatever the order
FaultsOfInput == IF fnf = {} THEN cur.faults0 ELSE Faults(cur.ty, cur.val, <<>>, cur.pk, fnf)
Inv_C02 == (Done /\ AllC /\ FactsUnambiguous(cur.val, fnf)) => SameBag(reps, FaultsOfInput)
\* ... and a frame never returns while obligations are pending unless a stop was answered
Inv_C02_local == \A c \in Candidates(stack, CurNow) : c.e = "exit" => (Top(stack).pend = {} \/ Top(stack).brk \/ stopped \/ Top(stack).ph \in {"fin", "leafok"})

\* C03: once stop is answered and every later answer is stop too, no new report is produced
Inv_C03 == stopped => newAfterStop = 0
\* ... the always-stop run yields exactly the first report of the keep-going run (canonical order makes "first" meaningful)
IsSubseq(a, b) == LET RECURSIVE f(_, _) f(i, j) == IF i > Len(a) THEN TRUE ELSE IF j > Len(b) THEN FALSE
                                                  ELSE IF a[i] = b[j] THEN f(i + 1, j + 1) ELSE f(i, j + 1) IN f(1, 1)
Inv_C03_first == (Canonical /\ Done /\ out.z = "err" /\ FactsUnambiguous(cur.val, fnf)) =>
                    /\ IsSubseq(reps, FaultsOfInput)
                    /\ reps[1] = FaultsOfInput[1]
                    /\ (AllB => Len(reps) = 1)

\* C04: every report is located inside the payload, and a hand-over location is an ancestor-or-self of what is handed over
RECURSIVE Resolves(_, _)
Resolves(v, loc) ==
    IF Len(loc) = 0 THEN TRUE
    ELSE LET st == loc[1] rest == SubSeq(loc, 2, Len(loc)) IN
         IF st.t = "idx" THEN v.t = "seq" /\ st.i + 1 <= Len(v.e) /\ Resolves(v.e[st.i + 1], rest)
         ELSE v.t = "map" /\ \E j \in 1..Len(v.e) : v.e[j].k = st.k /\ Resolves(v.e[j].v, rest)
IsPrefixOf(a, b) == Len(a) <= Len(b) /\ SubSeq(b, 1, Len(a)) = a
\* the tag of an enum is removed before it is reported as having the wrong kind, but it is a position of the payload
Inv_C04 == /\ \A j \in 1..Len(reps) : Resolves(cur.val, reps[j].loc)
           /\ \A j \in 1..Len(stack) : IsPrefixOf(stack[j].loc, Top(stack).loc)
           /\ \A c \in Candidates(stack, CurNow) : c.e = "mrg" => IsPrefixOf(Top(stack).loc, c.loc)

\* C12: the machine never gets stuck before it has returned (checked as absence of deadlock) and always returns
Inv_C12 == phase = "running" => Candidates(stack, CurNow) # {}
Termination == <>(phase = "done")

\* the two wordings of "the value returned" agree
Inv_Value == \A c \in Candidates(stack, CurNow) : (c.e = "exit" /\ c.ok) => ValueAgrees(Top(stack), ValueOfFrame(Top(stack)))

(* declarative value semantics: Deserr!ValueOf / EqMod (C06 .. C10, C15): whatever order the members were examined in, the result *)
(* is the order-free ValueOf, and (Inv_C02) the report bag is the order-free Faults                                               *)
Inv_C15 == (Done /\ out.z = "ok" /\ ~usedfn) => EqMod(out.val, ValueOf(cur.ty, cur.val, cur.pk))
\* a successful call means the payload has no fault, and vice versa under keep-going
Inv_OkIffNoFaults == (Done /\ AllC /\ FactsUnambiguous(cur.val, fnf)) => ((out.z = "ok") <=> (FaultsOfInput = <<>>))

\* C11: a conversion / map / validate function is only ever due in a frame that has seen no failure, and validate only after every map
Inv_C11 == \A c \in Candidates(stack, CurNow) :
              (c.e = "call" /\ c.k \in {"map", "validate"}) => (~Top(stack).fail /\ ~Top(stack).brk /\ Top(stack).pend = {} /\ Top(stack).since = {})
Inv_C11_once == \A j \in 1..Len(stack) : \A a, b \in 1..Len(stack[j].mres) : stack[j].mres[a].fi = stack[j].mres[b].fi => a = b

EmitReplay == (Done /\ Canonical) => PrintT(<<"REPLAY", ToJson([idx |-> cur.idx, hist |-> hist])>>)
=============================================================================
