SPECIFICATION Spec
INVARIANT SucceedsExactlyWhenBoth
INVARIANT SameValue
INVARIANT FrameworkRejectionsPassThrough
INVARIANT CarriesExactlyTheDeserrError
INVARIANT JsonErrorIs400WithMessage
INVARIANT DeserrOnlyAfterFramework
INVARIANT EmitReplay
CHECK_DEADLOCK TRUE
