----------------------------- MODULE Trace_http -----------------------------
(* Trace validation for C20: one line per concrete request, with the outcome  *)
(* of the framework's own extractor, of deserr::deserialize on its document,  *)
(* and of the deserr extractor on an identically built request.               *)
EXTENDS DHttp, Json, IOUtils, TLC

Rec == ndJsonDeserialize(IOEnv.TRACE)
VARIABLES l, nviol, viol, okv, nok, nfw, nde
tvars == <<l, nviol, viol, okv, nok, nfw, nde>>

TraceInit == /\ l = 1 /\ nviol = 0 /\ viol = <<>> /\ okv = TRUE /\ nok = 0 /\ nfw = 0 /\ nde = 0
             /\ fw = "actix" /\ etype = "json" /\ stage = "received" /\ fwres = None /\ dres = None /\ out = None
TraceNext ==
    /\ l <= Len(Rec)
    /\ l' = l + 1
    /\ LET e == Rec[l] IN
         /\ okv' = ObservedAgrees(e)
         /\ nok' = nok + (IF e.ext.ok THEN 1 ELSE 0)
         /\ nfw' = nfw + (IF ~e.fwres.ok THEN 1 ELSE 0)
         /\ nde' = nde + (IF e.deser.ran /\ ~e.deser.ok THEN 1 ELSE 0)
         /\ nviol' = IF okv' THEN nviol ELSE nviol + 1
         /\ viol'  = IF ~okv' /\ Len(viol) < 10 THEN Append(viol, l) ELSE viol
    /\ UNCHANGED hvars
TraceSpec == TraceInit /\ [][TraceNext]_<<tvars, hvars>>
Final == l = Len(Rec) + 1
Report == Final => PrintT(<<"RESULT", ToJson([lines |-> Len(Rec), nviol |-> nviol, viol |-> viol, accepted |-> nok, framework_rejections |-> nfw, deserr_rejections |-> nde])>>)
TraceAccepted == TLCGet("stats").diameter = Len(Rec) + 1
=============================================================================
