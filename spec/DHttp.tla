-------------------------------- MODULE DHttp --------------------------------
(***************************************************************************)
(* C20 - the HTTP extractors (actix-web JSON, actix-web query parameters,  *)
(* axum JSON) as a three-step pipeline:                                    *)
(*   Framework   the framework's own extractor of a JSON document runs on  *)
(*               the request: it yields a document or a rejection          *)
(*   Deserialize deserr::deserialize of that document into the target:     *)
(*               a value or a deserr error                                 *)
(*   Respond     the extractor's outcome                                   *)
(* The outcomes of the first two steps are environment (the framework and  *)
(* deserr::deserialize are judged elsewhere); the law is about the third:  *)
(* the extractor adds nothing and loses nothing.                           *)
(*                                                                         *)
(* An outcome is [ok, val, status, ctype, body].                           *)
(***************************************************************************)
EXTENDS Naturals, Sequences

Frameworks == {"actix", "axum", "actix_query"}
ETypes == {"json", "api"}          \* JsonError, and a user error type with its own rendering

Acc(v) == [ok |-> TRUE, val |-> v, status |-> 0, ctype |-> "", body |-> ""]
Rej(st, ct, b) == [ok |-> FALSE, val |-> "", status |-> st, ctype |-> ct, body |-> b]
None == Rej(0, "", "")

VARIABLES fw, etype, stage, fwres, dres, out
hvars == <<fw, etype, stage, fwres, dres, out>>

\* abstract environment outcomes for model checking
FwOutcomes == {Acc("doc"), Rej(400, "text/plain", "malformed"), Rej(415, "text/plain", "content type"), Rej(413, "text/plain", "too large")}
\* what the error type E renders for a deserr failure with message m: JsonError is (400, m); the user type (422, "api:" m)
Render(et, m) == IF et = "json" THEN Rej(400, "text/plain", m) ELSE Rej(422, "application/x-api", "api:" \o m)
DOutcomes(et) == {Acc("value"), Render(et, "msg")}

Init == /\ fw \in Frameworks /\ etype \in ETypes
        /\ stage = "received" /\ fwres = None /\ dres = None /\ out = None

Framework == /\ stage = "received"
             /\ \E o \in FwOutcomes : fwres' = o
             /\ stage' = "extracted"
             /\ UNCHANGED <<fw, etype, dres, out>>

Deserialize == /\ stage = "extracted" /\ fwres.ok
               /\ \E o \in DOutcomes(etype) : dres' = o
               /\ stage' = "deserialized"
               /\ UNCHANGED <<fw, etype, fwres, out>>

\* the law
Compose(f, d) == IF ~f.ok THEN f ELSE d

Respond == /\ \/ (stage = "extracted" /\ ~fwres.ok)
              \/ stage = "deserialized"
           /\ out' = Compose(fwres, dres)
           /\ stage' = "responded"
           /\ UNCHANGED <<fw, etype, fwres, dres>>

Next == Framework \/ Deserialize \/ Respond \/ (stage = "responded" /\ UNCHANGED hvars)
Spec == Init /\ [][Next]_hvars

(* independent wording of the property *)
Responded == stage = "responded"
SucceedsExactlyWhenBoth == Responded => (out.ok <=> (fwres.ok /\ dres.ok))
SameValue == (Responded /\ out.ok) => out.val = dres.val
FrameworkRejectionsPassThrough == (Responded /\ ~fwres.ok) => out = fwres
CarriesExactlyTheDeserrError == (Responded /\ fwres.ok /\ ~dres.ok) => out = dres
JsonErrorIs400WithMessage == (Responded /\ fwres.ok /\ ~dres.ok /\ etype = "json") => out.status = 400 /\ out.body = "msg"
DeserrOnlyAfterFramework == stage = "deserialized" => fwres.ok

(* comparison with one observed request (trace validation) *)
\* e.fwres / e.deser / e.ext as logged by the harness; e.deser.rendered is E's own rendering of the deserr error
ObservedAgrees(e) ==
    LET d == IF ~e.deser.ran THEN None ELSE IF e.deser.ok THEN Acc(e.deser.val) ELSE e.deser.rendered IN
    /\ e.ext = Compose(e.fwres, d)
    /\ (e.fwres.ok /\ e.deser.ran /\ ~e.deser.ok) =>
            /\ e.ext.status = e.eparams.status                     \* for JsonError: 400 with the message as body
            /\ e.ext.body = e.eparams.prefix \o e.deser.msg
    /\ (e.ext.ok => e.fwres.ok /\ e.deser.ran /\ e.deser.ok /\ e.ext.val = e.deser.val)
=============================================================================
