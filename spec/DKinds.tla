------------------------------- MODULE DKinds -------------------------------
(***************************************************************************)
(* C17 - the expected-kinds phrase of JsonError.                           *)
(*                                                                         *)
(* DescSpec(S) is the property: the phrase as a function of the SET of     *)
(* accepted kinds.  DescImpl(seq) transcribes what src/errors/json.rs does *)
(* with a LIST: stable sort by rank, dedup of adjacent repeats, then the   *)
(* recursive description_rec with its five match arms and item counter.    *)
(* The design-level invariant is DescImpl(seq) = DescSpec(Range(seq)).     *)
(* The state machine just grows a list one kind at a time so that TLC      *)
(* enumerates every sequence up to MaxLen.                                 *)
(***************************************************************************)
EXTENDS Naturals, Sequences, FiniteSets

CONSTANT MaxLen
VARIABLE kinds
kvars == <<kinds>>

Kinds == {"Null", "Boolean", "Integer", "NegativeInteger", "Float", "String", "Sequence", "Map"}

Range(s) == {s[j] : j \in 1..Len(s)}

(* ----------------------------- property side --------------------------- *)
\* The items named, in the fixed order of the documentation.
NumericItems(S) ==
    IF "Float" \in S THEN <<"a number">>                       \* stands for the integer kinds too
    ELSE IF "Integer" \in S /\ "NegativeInteger" \in S THEN <<"an integer">>
    ELSE (IF "Integer" \in S THEN <<"a positive integer">> ELSE <<>>)
         \o (IF "NegativeInteger" \in S THEN <<"a negative integer">> ELSE <<>>)

Items(S) ==
       (IF "Null" \in S THEN <<"null">> ELSE <<>>)
    \o (IF "Boolean" \in S THEN <<"a boolean">> ELSE <<>>)
    \o NumericItems(S)
    \o (IF "String" \in S THEN <<"a string">> ELSE <<>>)
    \o (IF "Sequence" \in S THEN <<"an array">> ELSE <<>>)
    \o (IF "Map" \in S THEN <<"an object">> ELSE <<>>)

RECURSIVE JoinComma(_)
JoinComma(items) == IF Len(items) = 1 THEN items[1] ELSE items[1] \o ", " \o JoinComma(Tail(items))

\* 'a', 'a or b', 'a, b, or c'
Join(items) ==
    CASE Len(items) = 0 -> "a different value"
      [] Len(items) = 1 -> items[1]
      [] Len(items) = 2 -> items[1] \o " or " \o items[2]
      [] OTHER -> JoinComma(SubSeq(items, 1, Len(items) - 1)) \o ", or " \o items[Len(items)]

DescSpec(S) == Join(Items(S))

\* Query parameters are always strings (src/errors/query_params.rs)
QueryDescSpec(S) == "a string"

(* -------------------------- implementation side ------------------------ *)
Order(k) == CASE k = "Null" -> 0 [] k = "Boolean" -> 1 [] k = "Integer" -> 2 [] k = "NegativeInteger" -> 3
              [] k = "Float" -> 4 [] k = "String" -> 5 [] k = "Sequence" -> 6 [] k = "Map" -> 7

Single(k) == CASE k = "Null" -> "null" [] k = "Boolean" -> "a boolean" [] k = "Integer" -> "a positive integer"
               [] k = "NegativeInteger" -> "a negative integer" [] k = "Float" -> "a number" [] k = "String" -> "a string"
               [] k = "Sequence" -> "an array" [] k = "Map" -> "an object"

\* stable insertion: after every element whose rank is <= the new one
RECURSIVE InsertStable(_, _)
InsertStable(sorted, k) ==
    IF sorted = <<>> THEN <<k>>
    ELSE IF Order(Head(sorted)) <= Order(k) THEN <<Head(sorted)>> \o InsertStable(Tail(sorted), k)
    ELSE <<k>> \o sorted

RECURSIVE SortByKey(_)
SortByKey(s) == IF s = <<>> THEN <<>> ELSE InsertStable(SortByKey(SubSeq(s, 1, Len(s) - 1)), s[Len(s)])

\* Vec::dedup: drop elements equal to their predecessor
RECURSIVE Dedup(_)
Dedup(s) == IF Len(s) <= 1 THEN s
            ELSE IF s[1] = s[2] THEN Dedup(Tail(s)) ELSE <<s[1]>> \o Dedup(Tail(s))

IsInt(k) == k \in {"Integer", "NegativeInteger"}

\* description_rec(kinds, count_items, message) returning the text appended to message
RECURSIVE DescRec(_, _)
DescRec(ks, count) ==
    IF ks = <<>> THEN ""    \* arm 1: ("", []) and rest empty: pushes "" in every count case except the separators...
    ELSE
    LET arm == CASE Len(ks) >= 2 /\ IsInt(ks[1]) /\ ks[2] = "Float"                                      -> [msg |-> "a number",  rest |-> SubSeq(ks, 3, Len(ks))]
                 [] Len(ks) >= 3 /\ ks[1] = "Integer" /\ ks[2] = "NegativeInteger" /\ ks[3] = "Float"    -> [msg |-> "a number",  rest |-> SubSeq(ks, 4, Len(ks))]
                 [] Len(ks) >= 2 /\ ks[1] = "Integer" /\ ks[2] = "NegativeInteger"                       -> [msg |-> "an integer", rest |-> SubSeq(ks, 3, Len(ks))]
                 [] OTHER                                                                               -> [msg |-> Single(ks[1]), rest |-> Tail(ks)]
    IN IF arm.rest = <<>>
       THEN (IF count = 0 THEN arm.msg ELSE IF count = 1 THEN " or " \o arm.msg ELSE ", or " \o arm.msg)
       ELSE (IF count = 0 THEN arm.msg ELSE ", " \o arm.msg) \o DescRec(arm.rest, count + 1)

DescImpl(seq) ==
    LET ks == Dedup(SortByKey(seq))
    IN IF ks = <<>> THEN "a different value" ELSE DescRec(ks, 0)

(* ------------------------------- machine ------------------------------- *)
Init == kinds = <<>>
Grow(k) == kinds' = Append(kinds, k)
Next == Len(kinds) < MaxLen /\ \E k \in Kinds : Grow(k)
Spec == Init /\ [][Next]_kvars

(* ------------------------------ invariants ----------------------------- *)
ImplMeetsSpec == DescImpl(kinds) = DescSpec(Range(kinds))
\* the phrase names nothing outside the set and everything inside it (via Items)
OrderFree == \A j \in 1..(Len(kinds) - 1) :
               LET sw == [kinds EXCEPT ![j] = kinds[j + 1], ![j + 1] = kinds[j]] IN DescImpl(sw) = DescImpl(kinds)
=============================================================================
