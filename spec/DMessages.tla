------------------------------ MODULE DMessages ------------------------------
(***************************************************************************)
(* C14 - what the messages of JsonError / QueryParamError must contain.    *)
(*                                                                         *)
(* A rendered message is observed as the list of its back-quoted segments  *)
(* (the documented, snapshot-pinned surface syntax) plus the digit runs    *)
(* outside them.  For a structured report (kind, location, details) the    *)
(* specification says which segments the message consists of:              *)
(*   the path of the report rendered from the payload root (none at the    *)
(*   root; query parameters without the leading dot), the offending value  *)
(*   (JsonError: JSON text, compared after parsing it back), the missing   *)
(*   field, the unknown key / value with every accepted alternative and a  *)
(*   suggestion exactly when an alternative is within the typo budget,     *)
(*   naming one of those (DDidYouMean!Close), and for                      *)
(*   `Unexpected` the segments of the detail message itself.               *)
(* The wording outside the segments is not constrained, except that a      *)
(* length error contains the two lengths and `Unexpected` the detail       *)
(* message.  (The expected-kinds phrase is C17's business: C14 does not    *)
(* mention it.)                                                            *)
(***************************************************************************)
EXTENDS Deserr

DK == INSTANCE DKinds WITH MaxLen <- 0, kinds <- <<>>
DY == INSTANCE DDidYouMean WITH Alphabet <- {}, MaxLen <- 0, r <- <<>>, t <- <<>>

RECURSIVE RenderJsonLoc(_)
RenderJsonLoc(loc) ==
    IF Len(loc) = 0 THEN ""
    ELSE LET st == loc[Len(loc)] pre == RenderJsonLoc(SubSeq(loc, 1, Len(loc) - 1)) IN
         IF st.t = "key" THEN pre \o "." \o st.k ELSE pre \o "[" \o NatText(st.i) \o "]"

\* query parameters: the first parameter name carries no leading dot
RECURSIVE RenderQueryLoc(_)
RenderQueryLoc(loc) ==
    IF Len(loc) = 0 THEN ""
    ELSE LET st == loc[Len(loc)] pre == SubSeq(loc, 1, Len(loc) - 1) IN
         IF st.t = "key" THEN (IF Len(pre) = 0 THEN st.k ELSE RenderQueryLoc(pre) \o "." \o st.k)
         ELSE RenderQueryLoc(pre) \o "[" \o NatText(st.i) \o "]"

\* matchers for segments
MText(str) == [m |-> "text", s |-> str, v |-> NullV]
MJson(v)   == [m |-> "json", s |-> "", v |-> v]
MFloat(b)  == [m |-> "float", s |-> b, v |-> NullV]

\* numbers are compared by value (a non-serde_json source may hold a non-negative number as NegativeInteger), containers recursively
RECURSIVE ValEq(_, _)
ValEq(a, b) ==
    IF a.t \in {"int", "neg"} /\ b.t \in {"int", "neg"} THEN NumOf(a) = NumOf(b)
    ELSE IF a.t # b.t THEN FALSE
    ELSE CASE a.t = "seq" -> Len(a.e) = Len(b.e) /\ \A j \in 1..Len(a.e) : ValEq(a.e[j], b.e[j])
           [] a.t = "map" -> Len(a.e) = Len(b.e) /\ \A j \in 1..Len(a.e) : \E k \in 1..Len(b.e) : a.e[j].k = b.e[k].k /\ ValEq(a.e[j].v, b.e[k].v)
           [] a.t = "str" -> a.s = b.s
           [] a.t = "float" -> a.s = b.s
           [] a.t = "bool" -> a.b = b.b
           [] OTHER -> TRUE

SegMatches(seg, mt) ==
    CASE mt.m = "text"  -> seg.t = mt.s
      [] mt.m = "json"  -> seg.json.z = "some" /\ ValEq(seg.json.v, mt.v)
      [] mt.m = "float" -> seg.num.z = "some" /\ seg.num.bits = mt.s

RemoveAt(s, i) == SubSeq(s, 1, i - 1) \o SubSeq(s, i + 1, Len(s))
\* the observed segments are exactly the expected ones, as bags
RECURSIVE MatchBag(_, _)
MatchBag(segs, ms) ==
    IF Len(ms) = 0 THEN Len(segs) = 0
    ELSE \E j \in 1..Len(segs) : SegMatches(segs[j], ms[1]) /\ MatchBag(RemoveAt(segs, j), SubSeq(ms, 2, Len(ms)))

\* the back-quoted segments of a detail message
RECURSIVE BQFrom(_, _, _, _)
BQFrom(s, i, inside, cur) ==
    IF i > Len(s) THEN <<>>
    ELSE IF SubSeq(s, i, i) = "`" THEN (IF inside THEN <<MText(cur)>> \o BQFrom(s, i + 1, FALSE, "") ELSE BQFrom(s, i + 1, TRUE, ""))
    ELSE BQFrom(s, i + 1, inside, IF inside THEN cur \o SubSeq(s, i, i) ELSE cur)
BQSegs(s) == BQFrom(s, 1, FALSE, "")

FiniteV(v) == v.t # "float" \/ FiniteBits(v.s)

Texts(ss) == [j \in 1..Len(ss) |-> MText(ss[j])]
\* C14: "a suggestion only when one is close" - which of several close alternatives is named is C18's business (did_you_mean
\* itself), so every alternative within the budget is admitted here
Suggestions(recvcp, acccp, accepted) ==
    LET S == DY!Close(recvcp, acccp) IN IF S = {} THEN {<<>>} ELSE {<<MText(accepted[j])>> : j \in S}
SugOf(det, ma) ==
    CASE det.k = "unknownkey"   -> Suggestions(ma.keycp, ma.acccp, det.accepted)
      [] det.k = "unknownvalue" -> Suggestions(ma.valuecp, ma.acccp, det.accepted)
      [] OTHER -> {<<>>}

ExpectedJson(det, loc, ma, sug) ==
    LET path == IF Len(loc) = 0 THEN <<>> ELSE <<MText(RenderJsonLoc(loc))>> IN
    CASE det.k = "kind"         -> path \o (IF det.actual.t = "null" \/ ~FiniteV(det.actual) THEN <<>> ELSE <<MJson(det.actual)>>)
      [] det.k = "missing"      -> <<MText(det.field)>> \o path
      [] det.k = "unknownkey"   -> <<MText(det.key)>> \o path \o sug \o Texts(det.accepted)
      [] det.k = "unknownvalue" -> <<MText(det.value)>> \o path \o sug \o Texts(det.accepted)
      [] det.k = "badlen"       -> path \o <<MJson(det.actual)>>
      [] OTHER                  -> path \o BQSegs(det.msg)

\* how QueryParamError describes a value: scalars by their text, sequences / maps without quoting anything
QueryValue(v) ==
    CASE v.t = "bool" -> <<MText(IF v.b THEN "true" ELSE "false")>>
      [] v.t \in {"int", "neg"} -> <<MText(NumText(v))>>
      [] v.t = "float" -> (IF FiniteV(v) THEN <<MFloat(v.s)>> ELSE <<>>)
      [] v.t = "str" -> <<MText(v.s)>>
      [] OTHER -> <<>>

ExpectedQuery(det, loc, ma, sug) ==
    LET path == IF Len(loc) = 0 THEN <<>> ELSE <<MText(RenderQueryLoc(loc))>> IN
    CASE det.k = "kind"         -> path \o QueryValue(det.actual)
      [] det.k = "missing"      -> <<MText(det.field)>> \o path
      [] det.k = "unknownkey"   -> <<MText(det.key)>> \o path \o sug \o Texts(det.accepted)
      [] det.k = "unknownvalue" -> <<MText(det.value)>> \o path \o sug \o Texts(det.accepted)
      [] det.k = "badlen"       -> path \o <<MJson(det.actual)>>
      [] OTHER                  -> path \o BQSegs(det.msg)

\* values of the payload at a location (several when a second value source presents duplicate keys)
RECURSIVE AtSet(_, _)
AtSet(v, loc) ==
    IF Len(loc) = 0 THEN {v}
    ELSE LET st == loc[1] rest == SubSeq(loc, 2, Len(loc)) IN
         IF st.t = "idx" THEN (IF v.t = "seq" /\ st.i + 1 <= Len(v.e) THEN AtSet(v.e[st.i + 1], rest) ELSE {})
         ELSE IF v.t = "map" THEN UNION {AtSet(v.e[j].v, rest) : j \in {m \in 1..Len(v.e) : v.e[m].k = st.k}} ELSE {}

PlainKeys(loc) == \A j \in 1..Len(loc) : loc[j].t = "idx" \/ (Len(loc[j].k) > 0 /\ \A i \in 1..Len(loc[j].k) :
                        LET c == SubSeq(loc[j].k, i, i) IN IsUpperC(c) \/ IsLowerC(c) \/ c = "_" \/ \E d \in 0..9 : c = DigitChar(d))

\* JsonError: the path read back from the message resolves in the payload to the very value the message quotes
ReadBack(det, loc, ma, payload) ==
    (det.k \in {"kind", "badlen"} /\ Len(loc) > 0 /\ PlainKeys(loc) /\ det.actual.t # "null" /\ FiniteV(det.actual)) =>
        \E p \in 1..Len(ma.sj) : \E q \in 1..Len(ma.sj) :
            /\ ma.sj[p].path.z = "some" /\ ma.sj[q].json.z = "some"
            /\ \E w \in AtSet(payload, ma.sj[p].path.steps) : ValEq(ma.sj[q].json.v, w)

Lengths(det, nums) ==
    det.k = "badlen" => IntToSigned(Len(det.actual.e)) \in SeqToSet(nums) /\ IntToSigned(det.expected) \in SeqToSet(nums)

\* the whole guard for one report whose renderings were logged
MessagesAgree(e, payload) ==
    LET det == e.det ma == e.ma IN
    /\ \E sug \in SugOf(det, ma) : MatchBag(ma.sj, ExpectedJson(det, e.loc, ma, sug))
    /\ \E sug \in SugOf(det, ma) : MatchBag(ma.sq, ExpectedQuery(det, e.loc, ma, sug))
    /\ ReadBack(det, e.loc, ma, payload)
    /\ Lengths(det, ma.nj) /\ Lengths(det, ma.nq)
    /\ (det.k = "unexpected" => Contains(e.mj, det.msg) /\ Contains(e.mq, det.msg))
=============================================================================
