SPECIFICATION Spec
CONSTANT MaxLen = 5
INVARIANT ImplMeetsSpec
INVARIANT OrderFree
INVARIANT EmitReplay
CHECK_DEADLOCK FALSE
