SPECIFICATION Spec
CONSTANTS
  Alphabet = {97, 98, 233}
  MaxLen = 5
INVARIANT Zero
INVARIANT Symmetric
INVARIANT Lipschitz
INVARIANT Descent
INVARIANT Structural
CHECK_DEADLOCK FALSE
