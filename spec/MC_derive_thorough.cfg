SPECIFICATION Spec
CONSTANT MaxItems = 3
INVARIANT PoisonRejected
INVARIANT OnlyPoisonRejected
INVARIANT NoOverride
INVARIANT NoDrop
INVARIANT NeverStuck
INVARIANT MachineIsFunction
INVARIANT EmitReplay
CHECK_DEADLOCK FALSE
