SPECIFICATION TraceSpec
CONSTANTS
  Alphabet = {}
  MaxLen = 0
INVARIANT Report
POSTCONDITION TraceAccepted
CHECK_DEADLOCK FALSE
