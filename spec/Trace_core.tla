----------------------------- MODULE Trace_core -----------------------------
(***************************************************************************)
(* Trace validation of the core machine (impl -> spec).                    *)
(*                                                                         *)
(* The trace is a sequence of runs.  A run starts with a `reset` / `run`   *)
(* line (catalogue entry, payload as presented, parse table of its keys,   *)
(* answer script) followed by every event of the real execution.  Runs are *)
(* grouped: a `reset` starts a group with the all-Continue REFERENCE run   *)
(* of an input; the `run`s that follow use the same input with other       *)
(* answer scripts (cmp), a permutation of its object members (perm), or a  *)
(* built-in error type (etype json / query).                               *)
(*                                                                         *)
(* Monitor style: every line is consumed; an event that no candidate of    *)
(* Deserr!Candidates explains is charged to the properties it violates and *)
(* the rest of that run is skipped (first deviation wins, so one defect is *)
(* not reported under unrelated properties).                               *)
(***************************************************************************)
EXTENDS DMessages

Rec == ndJsonDeserialize(IOEnv.TRACE)

Props == {"C01", "C02", "C03", "C04", "C05", "C06", "C07", "C08", "C09", "C10", "C11", "C12", "C13", "C14", "C15", "CONF"}

VARIABLES st, l
tvars == <<st, l>>

NoCur == [ty |-> 0, val |-> NullV, pk |-> <<>>, canonical |-> FALSE, etype |-> "rec", allc |-> TRUE, isref |-> FALSE,
          cmp |-> FALSE, perm |-> FALSE, extra |-> FALSE, deep |-> FALSE, src |-> "", stopped |-> FALSE, lax |-> TRUE, bare |-> FALSE]
NoDone == [has |-> FALSE, ok |-> FALSE, val |-> UnitRV, reps |-> <<>>, final |-> <<>>]

InitSt == [stack |-> <<>>, cur |-> NoCur, made |-> {}, reps |-> <<>>, phase |-> "none", runbad |-> TRUE,
           refev |-> <<>>, pos |-> 0, diverged |-> FALSE, refok |-> FALSE,
           ref1 |-> [has |-> FALSE, mj |-> "", mq |-> ""], refdone |-> NoDone, rootexit |-> [ok |-> FALSE, val |-> UnitRV, ids |-> <<>>],
           fnf |-> {}, ncall |-> 0, idp |-> <<>>, repids |-> <<>>, waived |-> <<>>,
           vcount |-> [p \in Props |-> 0], viol |-> <<>>, nruns |-> 0, nev |-> 0, nrep |-> 0, nbrk |-> 0, ncmp |-> 0, nperm |-> 0, nmsg |-> 0,
           ncheck |-> [p \in Props |-> 0]]

\* charge the properties ps with a deviation at the current line; the rest of the run is skipped
Flag(s, ps, why) ==
    [s EXCEPT !.runbad = TRUE,
              !.vcount = [p \in Props |-> IF p \in ps THEN @[p] + 1 ELSE @[p]],
              !.viol = IF Len(@) < 40 THEN Append(@, [l |-> l, why |-> why, props |-> ps]) ELSE @,
              !.refok = IF s.cur.isref THEN FALSE ELSE @]
\* a deviation that is not about the protocol (message content): recorded, the run goes on being judged
SoftFlag(s, ps, why) ==
    [s EXCEPT !.vcount = [p \in Props |-> IF p \in ps THEN @[p] + 1 ELSE @[p]],
              !.viol = IF Len(@) < 40 THEN Append(@, [l |-> l, why |-> why, props |-> ps]) ELSE @]
Seen(s, ps) == [s EXCEPT !.ncheck = [p \in Props |-> IF p \in ps THEN @[p] + 1 ELSE @[p]]]

(* --------------------------------- runs --------------------------------- *)
AllOnes(sc) == \A j \in 1..Len(sc) : sc[j] = 1
StartRun(s, e) ==
    LET isref == e.e = "reset"
        cur == [ty |-> e.ty, val |-> e.val, pk |-> e.pk, canonical |-> FALSE, etype |-> e.etype,
                allc |-> (e.dflt = "c" /\ AllOnes(e.script) /\ e.etype = "rec"), isref |-> isref,
                cmp |-> (~isref /\ e.etype = "rec" /\ ~e.inp.perm /\ ~e.inp.extra /\ ~e.deep), perm |-> (~isref /\ e.inp.perm /\ e.etype = "rec"),
                extra |-> (~isref /\ e.inp.extra /\ e.etype = "rec"),
                deep |-> e.deep, src |-> e.src, stopped |-> FALSE, lax |-> TRUE, bare |-> e.bare]
    IN [s EXCEPT !.stack = <<>>, !.cur = cur, !.made = {}, !.reps = <<>>, !.repids = <<>>, !.fnf = {}, !.idp = <<>>, !.waived = <<>>, !.phase = "idle", !.runbad = FALSE,
                 !.refev = IF isref THEN <<>> ELSE @, !.pos = 0, !.diverged = FALSE,
                 !.refok = IF isref THEN TRUE ELSE @,
                 !.ref1 = IF isref THEN [has |-> FALSE, mj |-> "", mq |-> ""] ELSE @,
                 !.refdone = IF isref THEN NoDone ELSE @,
                 !.nruns = @ + 1]

\* C03(c): everything that happens before the first stop answer is identical to the keep-going run of the same input
NormEv(e) == IF e.e = "err" THEN [e EXCEPT !.ans = "x", !.mj = "", !.mq = "", !.ma = <<>>]      \* the renderings are logged for reference runs only
             ELSE IF e.e = "mrg" THEN [e EXCEPT !.ans = "x", !.mj = "", !.mq = ""] ELSE e
PrefixStep(s, e) ==
    IF s.cur.isref THEN [s EXCEPT !.refev = Append(@, NormEv(e))]
    ELSE IF ~s.cur.cmp \/ s.diverged THEN s
    ELSE LET p == s.pos + 1
             same == p <= Len(s.refev) /\ s.refev[p] = NormEv(e)
             s1 == [s EXCEPT !.pos = p, !.diverged = (e.e \in {"err", "mrg"} /\ e.ans = "b"), !.ncmp = @ + 1]
         IN IF same THEN Seen(s1, {"C03"}) ELSE Flag(s1, {"C03"}, "the run departs from the keep-going run of the same input before any stop answer")

(* -------------------------------- events -------------------------------- *)
ObsDesc(e) ==
    LET d == e.det IN
    CASE d.k = "kind"         -> Desc("kind", e.loc, "", 0, d.actual, SeqToSet(d.accepted))
      [] d.k = "missing"      -> Desc("missing", e.loc, d.field, 0, NullV, {})
      [] d.k = "unknownkey"   -> Desc("unknownkey", e.loc, d.key, 0, NullV, SeqToSet(d.accepted))
      [] d.k = "unknownvalue" -> Desc("unknownvalue", e.loc, d.value, 0, NullV, SeqToSet(d.accepted))
      [] d.k = "badlen"       -> Desc("badlen", e.loc, "", d.expected, d.actual, {})
      [] OTHER                -> Desc("unexpected", e.loc, "", 0, NullV, {})

DetAgrees(c, d) ==
    CASE c.k = "kind"         -> d.actual = c.actual /\ SeqToSet(d.accepted) = c.accepted
      [] c.k = "missing"      -> d.field = c.field
      [] c.k = "unknownkey"   -> d.key = c.key /\ d.accepted = c.accepted
      [] c.k = "unknownvalue" -> d.value = c.value /\ d.accepted = c.accepted
      [] c.k = "badlen"       -> d.actual = c.actual /\ d.expected = c.expected
      [] OTHER                -> c.msgkey = "" \/ Contains(d.msg, c.msgkey)

\* which candidate a report of the same kind is about (several missing fields / unknown keys may be pending)
SameSubject(c, d) ==
    CASE c.k = "missing"    -> d.field = c.field
      [] c.k = "unknownkey" -> d.key = c.key
      [] OTHER -> TRUE

\* losing or duplicating a report in a keep-going run also breaks "the final error holds exactly one report per fault"
KeepGoing(s) == IF s.cur.allc THEN {"C02"} ELSE {}

\* in a variant, the fields are read by the rules of that variant alone (C10)
EnumProps(N) == IF N.c = "enum" THEN {"C10"} ELSE {}
ParentKindProps(F) ==
    LET N == Nodes[F.n] IN
    IF IsStructLike(N) THEN {"C04", "C07"} \cup EnumProps(N) ELSE IF N.c \in {"hmap", "bmap"} THEN {"C04", "C06"} ELSE {"C04", "C06"}

OnEnter(s, e) ==
    IF s.phase = "idle" THEN
        IF e.n = s.cur.ty /\ e.loc = <<>> /\ e.vk = KindOfV(s.cur.val) /\ e.sc = SummaryOf(s.cur.val)
        THEN [s EXCEPT !.stack = PushRoot(s.cur), !.phase = "running"]
        \* the serde_json value source is deserr's own (src/serde_json.rs): when it presents something else than the document, that is
        \* a deviation of the code under test (C13: kinds as serde_json holds them; C04: what reports quote), not of the harness
        ELSE IF e.n = s.cur.ty /\ e.loc = <<>> /\ s.cur.src = "json"
             THEN Flag(s, {"C13", "C04", "C05"}, "the serde_json value source hands over another value than the document holds")
        ELSE Flag(s, {"CONF"}, "first event is not the root type entered at the origin with the payload")
    ELSE IF s.phase # "running" \/ Len(s.stack) = 0 THEN Flag(s, {"CONF"}, "enter outside a running call")
    ELSE IF s.cur.stopped THEN Flag(s, {"C03"}, "something further is examined although the error type answered stop and was never told to continue since")
    ELSE
    LET F == Top(s.stack)
        cands == {c \in Candidates(s.stack, s.cur) : c.e = "enter" /\ c.n = e.n}
        chv(c) == Child(F, c.ob).val
        exact == {c \in cands : c.loc = e.loc /\ KindOfV(chv(c)) = e.vk /\ SummaryOf(chv(c)) = e.sc}
        pick(S) == CHOOSE c \in S : \A d \in S : ObLeq(c.ob, d.ob)
        push(c) == PushChild(s.stack, s.cur, c.n, c.loc, chv(c), c.ob, c.ety)
    IN IF exact # {} THEN
            LET c == pick(exact) IN
            Seen([s EXCEPT !.stack = push(c), !.fnf = IF c.ob.o = "optval" THEN @ \cup {[f |-> "optval", loc |-> c.loc, j |-> c.ob.i]} ELSE @],
                 {"C04", "C06", "C07", "C02"})
       ELSE IF cands # {} THEN
            LET byval == {c \in cands : KindOfV(chv(c)) = e.vk /\ SummaryOf(chv(c)) = e.sc}
                byloc == {c \in cands : c.loc = e.loc}
            \* the right value at a wrong location: charged, and the child is followed at the position it should have (what it then
            \* reports, or hands to user functions, at the wrong position is charged where it happens)
            IN IF byval # {} THEN SoftFlag([s EXCEPT !.stack = push(pick(byval))], ParentKindProps(F), "a child is entered at a location that is not its own position")
               ELSE IF byloc # {} THEN Flag(s, ParentKindProps(F), "a child is handed a value that is not the payload's value at its location")
               ELSE Flag(s, ParentKindProps(F), "a child is entered with neither its own location nor its own value")
       ELSE \* no pending obligation leads to this node
            LET N == Nodes[F.n]
                fs == FieldsOfNode(N, F.vi)
                isSkipped == IsStructLike(N) /\ \E fi \in 1..Len(fs) : fs[fi].skip /\ fs[fi].node = e.n
                isField == IsStructLike(N) /\ \E fi \in 1..Len(fs) : fs[fi].node = e.n
                otherVariant == N.c = "enum" /\ \E vj \in 1..Len(N.variants) : vj # F.vi /\ \E fi \in 1..Len(N.variants[vj].fields) : N.variants[vj].fields[fi].node = e.n
            IN IF F.brk \/ F.ph \in {"fin"} THEN Flag(s, {"C03"}, "a child is examined after the error type answered stop (or after a structural failure)")
               ELSE IF isSkipped THEN Flag(s, {"C08"}, "a skipped field reads the payload")
               ELSE IF isField THEN Flag(s, {"C07", "C09"} \cup EnumProps(N), "a field is fed from a member that does not carry its effective key")
               ELSE IF otherVariant \/ (N.c = "enum" /\ F.ph = "bad") THEN Flag(s, {"C10"}, "a field of a variant the tag does not name is read")
               ELSE Flag(s, {"C02", "C06"}, "a child is examined that the container has no obligation for (twice, or out of range)")

\* Freedom: a unit variant of an internally tagged enum under deny_unknown_fields may ignore the members next to the tag (the pinned
\* code: C09 speaks of structs and struct-like variants) or treat them like a struct-like variant without fields would: then the
\* frame is the frame of such a variant (every such member is due exactly once, with the empty accepted list).  The choice is a
\* fact of the run (fnf), like the failures of user functions.
UnitDenyFrame(s) ==
    IF s.phase # "running" \/ Len(s.stack) = 0 THEN FALSE
    ELSE LET F == Top(s.stack) N == Nodes[F.n] IN
         N.c = "enum" /\ F.ph = "leafok" /\ N.deny # "" /\ F.vi > 0 /\ F.val.t = "map" /\ F.vst = "none"
LaxUnit(s, wants) ==
    IF ~(UnitDenyFrame(s) /\ wants) THEN s
    ELSE LET F == Top(s.stack) N == Nodes[F.n] tj == Min(TagMembers(N, F.val)) IN
         [s EXCEPT !.stack = SetTop(s.stack, [F EXCEPT !.ph = "work", !.phb = "work", !.pend = StructPend(N, F.vi, F.val, tj)]),
                   !.fnf = @ \cup {[f |-> "unitdeny", loc |-> F.loc, j |-> 0]}]

\* Freedom: the report of a map key that cannot be parsed may be located at the map (the pinned code) or at the member's own
\* position (it exists in the payload, and the report says nothing about the value there): the latter is read as the former.
KeyLocNorm(s, e0) ==
    IF s.phase # "running" \/ Len(s.stack) = 0 \/ e0.det.k # "unexpected" THEN e0
    ELSE LET F == Top(s.stack) N == Nodes[F.n] IN
         IF IsMapTarget(N) /\ F.ph = "work" /\ F.val.t = "map"
            /\ \E j \in 1..Len(F.val.e) : e0.loc = Append(F.loc, KeyStep(F.val.e[j].k)) /\ ParseKey(s.cur.pk, N.name, F.val.e[j].k).z # "some"
                                            /\ Contains(e0.det.msg, F.val.e[j].k)
         THEN [e0 EXCEPT !.loc = F.loc] ELSE e0

OnErr(s0, e0) ==
    LET s == LaxUnit(s0, e0.det.k = "unknownkey")
        e == KeyLocNorm(s, e0) IN
    IF s.phase # "running" \/ Len(s.stack) = 0 THEN Flag(s, {"CONF"}, "report outside a running call")
    ELSE IF e.id \in s.made THEN Flag(s, {"C01"}, "a report id is used twice")
    ELSE IF s.cur.stopped THEN Flag([s EXCEPT !.reps = Append(@, ObsDesc(e)), !.repids = Append(@, e.id)], {"C03"},
                                    "a new report is produced although the error type answered stop and was never told to continue since")
    ELSE
    LET F == Top(s.stack)
        N == Nodes[F.n]
        cands == {c \in Candidates(s.stack, s.cur) : c.e = "err" /\ c.ans = e.ans}
        samek == {c \in cands : c.det.k = e.det.k /\ SameSubject(c.det, e.det)}
        exact == {c \in samek : c.loc = e.loc /\ DetAgrees(c.det, e.det)}
        pick(S) == CHOOSE c \in S : \A d \in S : ObLeq(c.ob, d.ob)
        s1 == [s EXCEPT !.made = @ \cup {e.id}, !.reps = Append(@, ObsDesc(e)), !.repids = Append(@, e.id), !.nrep = @ + 1,
                        !.cur = [@ EXCEPT !.stopped = (e.ans = "b")],
                        !.idp = Append(@, [id |-> e.id, ps |-> CASE e.det.k = "missing" -> {"C08"} [] e.det.k = "unknownkey" -> {"C09"}
                                                                  [] e.det.k = "unknownvalue" -> {"C10"}
                                                                  [] e.det.k = "unexpected" /\ IsMapTarget(N) -> {"C06"}      \* a map key that cannot be parsed
                                                                  [] e.det.k = "badlen" -> {"C06"} [] OTHER -> {}]),
                        !.nbrk = IF e.ans = "b" THEN @ + 1 ELSE @,
                        !.ref1 = IF s.cur.isref /\ ~@.has THEN [has |-> TRUE, mj |-> e.mj, mq |-> e.mq] ELSE @]
        kindprops == CASE e.det.k = "missing" -> {"C08"} [] e.det.k = "unknownkey" -> {"C09"} [] e.det.k = "unknownvalue" -> {"C10"}
                       [] e.det.k = "badlen" -> {"C06"} [] OTHER -> {}
        tagprops == IF N.c = "enum" /\ F.ph = "bad" THEN {"C10"} ELSE {}
        scalarprops == IF N.c = "scalar" THEN {"C05"} ELSE {}
    IN IF F.ph = "jbad" THEN
            \* the serde_json::Value target recurses without probes: its reports are judged by where they point
            IF e.det.k = "unexpected" /\ e.loc \in NonFiniteLeaves(F.val, F.loc) THEN Seen([s1 EXCEPT !.stack = AddSince(s.stack, e.id)], {"C04", "C13", "C03"})
            ELSE Flag(s1, {"C04", "C13"}, "a serde_json::Value target reports something else than a float that JSON cannot hold, or somewhere else")
       ELSE IF exact # {} THEN Seen([s1 EXCEPT !.stack = AfterErr(s.stack, e.id, pick(exact).ob, e.ans)], {"C04", "C02", "C03"} \cup kindprops \cup tagprops)
       ELSE IF samek # {} THEN
            LET c == pick(samek) IN
            IF c.loc # e.loc THEN Flag(s1, {"C04"} \cup kindprops \cup tagprops, "a report is located somewhere else than where the fault is")
            ELSE Flag(s1, (IF e.det.k \in {"kind", "badlen"} THEN {"C04"} ELSE {}) \cup kindprops \cup tagprops \cup scalarprops
                          \cup (IF e.det.k = "unexpected" /\ IsMapTarget(N) THEN {"C06"} ELSE {}),
                      "what a report says is not true of the payload at its location")
       ELSE \* no candidate of that kind / subject
            IF F.brk \/ F.ph = "fin" THEN Flag(s1, {"C03"}, "a new report is made after the error type answered stop (or after a structural failure)")
            ELSE IF e.det.k = "missing" THEN
                 Flag(s1, {"C08", "C04"} \cup KeepGoing(s) \cup tagprops
                          \cup (IF IsStructLike(N) /\ F.val.t = "map" /\ \E j \in 1..Len(F.val.e) : RouteK(N, F.vi, F.fkeys, F.val.e[j].k) > 0 /\ F.fkeys[RouteK(N, F.vi, F.fkeys, F.val.e[j].k)] = e.det.field
                                 THEN {"C07"} \cup EnumProps(N) ELSE {}),      \* its effective key is there: the field was not read from it
                      "a field is reported missing although it is present, defaulted, skipped, or already reported")
            ELSE IF e.det.k = "unknownkey" THEN
                 Flag(s1, {"C09", "C04"} \cup KeepGoing(s) \cup tagprops \cup (IF IsStructLike(N) /\ RouteK(N, F.vi, F.fkeys, e.det.key) > 0 THEN {"C07"} \cup EnumProps(N) ELSE {}),
                      "a key is reported unknown although it is known, not denied, or already reported")
            ELSE IF F.ph = "bad" THEN Flag(s1, {"C04"} \cup tagprops \cup scalarprops \cup (IF N.c \in {"arr", "tup"} THEN {"C06"} ELSE {}),
                                           "the report made for a faulty value is of the wrong kind")
            ELSE Flag(s1, {"C02", "C04"} \cup (IF N.c \in {"enum", "uenum"} THEN {"C10"} ELSE {}) \cup scalarprops
                          \* a std container that reports where the payload has no fault does not yield the payload's elements (C06)
                          \cup (IF N.c \in {"vec", "hset", "bset", "arr", "tup", "opt", "box", "hmap", "bmap", "cs"} THEN {"C06"} ELSE {}),
                      "a report is made that no fault of the payload explains")

OnMrg(s, e) ==
    IF s.phase # "running" \/ Len(s.stack) = 0 THEN Flag(s, {"CONF"}, "merge outside a running call")
    ELSE
    LET F == Top(s.stack)
        s1 == [s EXCEPT !.nbrk = IF e.ans = "b" THEN @ + 1 ELSE @]
    IN IF F.ph = "jbad" THEN
            (IF Len(e.loc) > Len(F.loc) /\ \E lf \in NonFiniteLeaves(F.val, F.loc) : Len(e.loc) <= Len(lf) /\ SubSeq(lf, 1, Len(e.loc)) = e.loc
             THEN [s1 EXCEPT !.cur = [@ EXCEPT !.stopped = (e.ans = "b")]]
             ELSE Flag(s1, {"C04"}, "a hand-over inside a serde_json::Value target is not located on the way to the faulty float"))
       ELSE IF F.ph \in {"fnm1", "fnm2", "fnmA", "fnm0"} THEN
            \* the error of a user function on its way into the error type
            LET c == CHOOSE x \in Candidates(s.stack, s.cur) : x.e = "mrg" /\ x.ans = e.ans
                isrep == F.ph # "fnm2"                                   \* this merge turns the function's error into a report
                \* Freedom: what the deny_unknown_fields function returned may be merged at the container (the pinned code) or at the
                \* offending member's own position - C09 fixes the arguments of the function, nothing fixes this merge location
                locok == e.loc = c.loc \/ (F.ph = "fnmA" /\ F.fnp.k = "deny" /\ F.fnp.ob.o = "entry" /\ e.loc = Append(F.loc, KeyStep(F.val.e[F.fnp.ob.i].k)))
                s2 == IF isrep THEN [s1 EXCEPT !.made = @ \cup {F.fnp.id}, !.reps = Append(@, FnDesc(F.fnp.f, IF locok THEN c.loc ELSE e.loc)), !.repids = Append(@, F.fnp.id), !.nrep = @ + 1,
                                               !.ref1 = IF s.cur.isref /\ ~@.has THEN [has |-> TRUE, mj |-> e.mj, mq |-> e.mq] ELSE @,
                                               !.idp = Append(@, [id |-> F.fnp.id, ps |-> CASE F.fnp.k = "missing" -> {"C08"} [] F.fnp.k = "deny" -> {"C09"} [] OTHER -> {"C11"}])]
                      ELSE s1
                \* (a deviating merge that is a report is still recorded as one: the result of the call is judged at the end)
                s1r == IF isrep THEN [s1 EXCEPT !.reps = Append(@, FnDesc(F.fnp.f, e.loc)), !.repids = Append(@, F.fnp.id)] ELSE s1
                locprops == CASE F.fnp.k = "missing" -> {"C08", "C04"} [] F.fnp.k = "deny" -> {"C09", "C04"} [] OTHER -> {"C11", "C04"}
            IN IF ~SameBag(e.other, c.ids) THEN Flag(s1, {"C11", "C01"}, "the error handed over is not the error the user function returned")
               ELSE IF e.ety # c.ety THEN Flag(s1r, {"C11"}, "a conversion error is merged under the wrong error type (field-level vs container)")
               ELSE IF ~locok THEN Flag(s1r, locprops, "a user function's error is handed over at the wrong location")
               ELSE IF isrep /\ F.fnp.id \in s.made THEN Flag(s1, {"C01", "C11"}, "a user function's error is reported twice")
               ELSE IF isrep /\ s.cur.stopped THEN Flag([s1 EXCEPT !.reps = Append(@, FnDesc(F.fnp.f, e.loc)), !.repids = Append(@, F.fnp.id)], {"C03"},
                                                         "a new report is produced although the error type answered stop and was never told to continue since")
               ELSE Seen([s2 EXCEPT !.stack = AfterFnMrg(s.stack, e.ans), !.cur = [@ EXCEPT !.stopped = (e.ans = "b")]], {"C11", "C04", "C01", "C03"})
       ELSE
            LET hs == {c \in Candidates(s.stack, s.cur) : c.e = "mrg" /\ c.ans = e.ans}
                mine == {c \in hs : SameBag(e.other, c.ids)}
                c == CHOOSE x \in mine : \A y \in mine : x.ob.i <= y.ob.i
                \* Freedom: a container may pass reports it made itself (and has not lost) through its own accumulator once more, at
                \* its own location (e.g. error(None, ..) followed by merge(accumulated, e, location)): nothing is lost or doubled
                \* by that - the bag check at its return still decides - and the answer counts like any other answer
                selfm == mine = {} /\ e.loc = F.loc /\ Len(e.other) > 0 /\ SeqToSet(e.other) \subseteq F.since /\ e.ety = F.ety
                         /\ F.ph = "work"
                         /\ \A ob \in F.pend : ob.o = "handover" => SeqToSet(F.hand[ob.i].ids) \cap SeqToSet(e.other) = {}
            \* (also after a stop: it only passes the built error on; the stop that was answered in this frame stays in force - C03)
            IN IF selfm THEN [s1 EXCEPT !.stack = SetTop(s.stack, [F EXCEPT !.brk = (@ \/ e.ans = "b")]), !.cur = [@ EXCEPT !.stopped = (e.ans = "b")]]
               ELSE IF hs = {} THEN
                    (IF F.brk \/ F.ph = "fin" THEN Flag(s1, {"C03"}, "a hand-over happens although nothing was returned to hand over after the stop")
                     ELSE Flag(s1, {"C01", "C11"}, "an error is handed over that no child returned"))
               ELSE IF mine = {} THEN Flag(s1, {"C01"}, "the error handed over is not the error a child returned")
               ELSE IF e.loc # c.loc THEN Flag(s1, {"C04"}, "the hand-over location is not the child's own position")
               ELSE IF e.ety # F.ety THEN Flag(s1, {"C11"}, "a child's error is merged under another error type than the container's")
               ELSE Seen([s1 EXCEPT !.stack = AfterMrg(s.stack, c.ob, e.ans), !.cur = [@ EXCEPT !.stopped = (e.ans = "b")]],
                         {"C04", "C01", "C03"} \cup (IF F.hand[c.ob.i].ety # F.ety THEN {"C11"} ELSE {}))

\* the finished value handed to `validate` / the field value handed to `map`
BuiltAgrees(F, v) == ValueAgrees(F, v)

OnCall(s0, e) ==
    LET s == LaxUnit(s0, UnitDenyFrame(s0) /\ Nodes[Top(s0.stack).n].denyfn = e.f) IN
    IF s.phase # "running" \/ Len(s.stack) = 0 THEN Flag(s, {"CONF"}, "user function called outside a running call")
    ELSE IF s.cur.stopped THEN Flag(s, {"C03"}, "a user function is called although the error type answered stop and was never told to continue since")
    ELSE
    LET F == Top(s.stack)
        N == Nodes[F.n]
        cands == {c \in Candidates(s.stack, s.cur) : c.e = "call" /\ c.f = e.f}
        argsok(c) == CASE c.argk = "exact"    -> e.args = c.args
                       [] c.argk = "map"      -> Len(e.args) = 1 /\ e.args[1] \in UnmappedFieldValue(F, N, c.fi)
                       [] c.argk = "validate" -> Len(e.args) = 2 /\ BuiltAgrees(F, e.args[1]) /\ e.args[2] = LocRV(F.loc)
        exact == {c \in cands : argsok(c)}
        s1 == [s EXCEPT !.ncall = @ + 1]
        kprops(c) == CASE c.k = "missing" -> {"C08"} [] c.k = "deny" -> {"C09"} [] OTHER -> {"C11"}
    IN IF exact # {} THEN
            LET c == CHOOSE x \in exact : \A y \in exact : ObLeq(x.ob, y.ob) IN
            Seen([s1 EXCEPT !.stack = AfterCall(s.stack, c)], kprops(c) \cup {"C11"})
       ELSE IF cands # {} THEN
            LET c == CHOOSE x \in cands : TRUE IN
            Flag(s1, kprops(c) \cup (IF c.argk = "validate" \/ c.k \in {"missing", "deny"} THEN {"C04"} ELSE {})
                         \* `map` on top of a default: the field's key is absent, what it must receive is the default (C08)
                         \cup (IF c.argk = "map" /\ F.val.t = "map" /\ ~\E j \in 1..Len(F.val.e) : RouteK(N, F.vi, F.fkeys, F.val.e[j].k) = c.fi THEN {"C08"} ELSE {}),
                 "a user function does not receive the value (key, accepted list, location) it must be called with")
       \* after a stop the work must end (C03); the function still only sees a good value, once (C11 is not about stopping)
       ELSE IF F.brk THEN Flag(s1, {"C03"}, "a user function is called after the error type answered stop")
       ELSE IF F.ph = "fin" THEN Flag(s1, {"C03", "C11"}, "a user function is called after a failure of the value it belongs to")
       ELSE \* the function is not due now: twice, on a bad value, before its turn, for a present / known key ...
            LET fs == FieldsOfNode(N, F.vi)
                ismiss == \E fi \in 1..Len(fs) : fs[fi].missfn = e.f
                isdeny == N.denyfn = e.f
            IN Flag(s1, IF ismiss THEN {"C08"} ELSE IF isdeny THEN {"C09"} ELSE {"C11"},
                    "a user function is called when it must not be (not exactly once, on a failed value, or for a key it is not about)")

OnRet(s, e) ==
    IF s.phase # "running" \/ Len(s.stack) = 0 THEN Flag(s, {"CONF"}, "user function returns outside a running call")
    ELSE
    LET F == Top(s.stack) IN
    IF F.ph # "fncall" \/ F.fnp.f # e.f THEN Flag(s, {"CONF"}, "return of a user function that was not called")
    ELSE IF ~(\E c \in Candidates(s.stack, s.cur) : c.e = "ret" /\ c.ok = e.ok) THEN Flag(s, {"CONF"}, "a user function of the catalogue returns what its kind cannot return")
    ELSE [s EXCEPT !.stack = AfterRet(s.stack, e.ok, e.val, e.id),
                   !.fnf = IF ~e.ok /\ CanFail(F.fnp.k) THEN @ \cup {[f |-> e.f, loc |-> IF F.fnp.k = "try" THEN F.fnp.loc ELSE F.loc, j |-> IF F.fnp.k = "try" THEN F.fnp.ob.i ELSE 0]} ELSE @]

SetAsSeq(S) == LET RECURSIVE f(_) f(T) == IF T = {} THEN <<>> ELSE LET x == CHOOSE y \in T : TRUE IN <<x>> \o f(T \ {x}) IN f(S)

ExitProps(N) == CASE N.c = "scalar" -> {"C05"} [] N.c = "struct" -> {"C07", "C08", "C11"} [] N.c \in {"enum", "uenum"} -> {"C10", "C07", "C08", "C11"}
                  [] N.c = "cfrom" -> {"C11"}
                  [] N.c = "jvalue" -> {"C13"} [] OTHER -> {"C06"}

\* which promises the obligations still pending in a frame stand for
PendProps(F) ==
    LET N == Nodes[F.n] IN
    UNION {CASE ob.o = "missing" -> {"C08"}
             [] ob.o = "entry" /\ IsStructLike(N) -> (IF RouteK(N, F.vi, F.fkeys, F.val.e[ob.i].k) = 0 THEN {"C09"} ELSE {"C07"})
             [] OTHER -> {"C06"} : ob \in F.pend}

\* the promises behind the reports that an error value lost (or counts twice)
LostProps(s, since, ids) ==
    LET got == SeqToSet(ids)
        off == (since \ got) \cup (got \ since) \cup {x \in got : Count(ids, x) > 1}
    IN UNION {s.idp[j].ps : j \in {k \in 1..Len(s.idp) : s.idp[k].id \in off}}

OnExit(s, e) ==
    IF s.phase # "running" \/ Len(s.stack) = 0 THEN Flag(s, {"CONF"}, "exit outside a running call")
    ELSE
    LET F == Top(s.stack)
        N == Nodes[F.n]
        cands == {c \in Candidates(s.stack, s.cur) : c.e = "exit"}
        rest == AfterExit(s.stack, e.ok, e.val, e.err.ids)
        s1 == [s EXCEPT !.stack = rest,
                        !.phase = IF Len(rest) = 0 THEN "exited" ELSE @,
                        !.rootexit = IF Len(rest) = 0 THEN [ok |-> e.ok, val |-> e.val, ids |-> e.err.ids] ELSE @]
        bagok == SameBag(e.err.ids, SetAsSeq(F.since))
    IN IF e.n # F.n THEN Flag(s, {"CONF"}, "exit of a node that is not on top of the stack")
       ELSE IF F.ph \in {"fnm0", "fnm1", "fnm2", "fnmA"} THEN
            Flag(s, CASE F.fnp.k = "missing" -> {"C08"} [] F.fnp.k = "deny" -> {"C09"} [] OTHER -> {"C11"},
                 "the container returns without handing the failure of a user function to the error type")
       ELSE IF F.ph = "jbad" THEN
            \* Freedom: a float JSON cannot hold is either reported (the pinned code) or becomes null as in From<Value<V>> - no property
            \* says which; what may not happen is a report together with Ok, or any other document
            IF e.ok THEN (IF F.since = {} /\ JsonRVAgrees(BackOf(F.val), e.val)
                          THEN [s1 EXCEPT !.waived = @ \o LET ls == LeavesAsSeq(NonFiniteLeaves(F.val, F.loc)) IN [j \in 1..Len(ls) |-> Desc("unexpected", ls[j], "", 0, NullV, {})]]
                          ELSE Flag(s, {"C13", "C01"}, "a serde_json::Value target returns Ok after a report, or another document than the payload (non-finite floats as null)"))
            ELSE IF bagok THEN s1 ELSE Flag(s, {"C01"} \cup KeepGoing(s), "the returned error is not made of exactly the reports made since the call was entered")
       ELSE IF e.ok THEN
            IF F.since # {} THEN Flag(s, {"C01"} \cup KeepGoing(s) \cup LostProps(s, F.since, <<>>) \cup (IF IsMapTarget(N) THEN {"C06"} ELSE {}), "Ok is returned although a report was made inside")
            ELSE IF \E c \in cands : c.ok THEN
                 IF ValueAgrees(F, e.val) THEN Seen(s1, {"C01", "C06"} \cup ExitProps(N))
                 ELSE Flag(s, ExitProps(N), "the value returned is not the one the payload prescribes")
            ELSE IF \E c \in Candidates(s.stack, s.cur) : c.e = "call" THEN
                 \* `map` is also due on top of a default / on a skipped field (C08)
                 Flag(s, {"C11"} \cup (IF \E c \in Candidates(s.stack, s.cur) : c.e = "call" /\ c.argk = "map" /\ F.val.t = "map"
                                                /\ ~\E j \in 1..Len(F.val.e) : RouteK(N, F.vi, F.fkeys, F.val.e[j].k) = c.fi THEN {"C08"} ELSE {}),
                      "Ok is returned without running the map / validate function that is due")
            ELSE IF F.ph = "bad" THEN Flag(s, ExitProps(N) \cup {"C04"} \cup KeepGoing(s), "Ok is returned for a value the target cannot accept, without any report")
            ELSE Flag(s, {"C02"} \cup PendProps(F), "Ok is returned before every element / member / field was examined")
       ELSE \* error exit
            IF ~bagok THEN Flag(s, {"C01"} \cup KeepGoing(s) \cup LostProps(s, F.since, e.err.ids), "the returned error is not made of exactly the reports made since the call was entered")
            ELSE IF \E c \in cands : ~c.ok THEN Seen(s1, {"C01", "C02", "C03"})
            ELSE IF F.ph = "work" /\ F.pend # {} /\ \A ob \in F.pend : ob.o = "handover" THEN s1   \* children's errors passed on without a hand-over call: nothing is lost
            ELSE IF F.ph \in {"leafok"} \/ (F.ph = "work" /\ ~F.fail /\ F.pend = {}) THEN
                 Flag(s, ExitProps(N) \cup {"C01"}, "an error is returned for a payload without any fault")
            ELSE Flag(s, {"C02"} \cup PendProps(F), "the container returns before every element / member / field was examined although no stop was answered")

\* reports compared across permutations of the same payload: the quoted `actual` value itself contains the members
\* in the presented order, so it is left out (kind, location, subject and accepted lists are compared)
NoAct(reps) == [j \in 1..Len(reps) |-> [reps[j] EXCEPT !.act = NullV]]

OnDone(s, e) ==
    IF s.cur.etype # "rec" THEN s
    ELSE IF s.phase # "exited" THEN Flag(s, {"CONF"}, "done before the root returned")
    ELSE IF e.ok # s.rootexit.ok \/ (e.ok /\ e.val # s.rootexit.val) \/ (~e.ok /\ ~SameBag(e.ids, s.rootexit.ids))
         \* deserr::deserialize itself stands between the root impl and the caller
         THEN Flag(s, {"C01"} \cup ExitProps(Nodes[s.cur.ty]), "deserialize returns something else than the root impl returned")
    ELSE IF e.ok /\ s.made # {} THEN Flag(s, {"C01"}, "deserialize returns Ok although the error type was asked to record something")
    ELSE IF ~e.ok /\ ~SameBag(e.ids, SetAsSeq(s.made)) THEN Flag(s, {"C01"}, "the final error is not made of exactly the reports of the call")
    ELSE
    LET s1 == [s EXCEPT !.phase = "done"]
        faults == Faults(s.cur.ty, s.cur.val, <<>>, s.cur.pk, s.fnf)
    IN IF s.cur.allc /\ FactsUnambiguous(s.cur.val, s.fnf)
       THEN (IF SameBag(s.reps \o s.waived, faults) THEN Seen(s1, {"C02", "C08", "C09", "C10"})
             ELSE LET got == s.reps \o s.waived
                      diff == {got[j] : j \in {k \in 1..Len(got) : Count(got, got[k]) # Count(faults, got[k])}}
                              \cup {faults[j] : j \in {k \in 1..Len(faults) : Count(got, faults[k]) # Count(faults, faults[k])}}
                      kp(d) == CASE d.k = "missing" -> {"C08"} [] d.k = "unknownkey" -> {"C09"} [] d.k = "unknownvalue" -> {"C10"}
                                 [] d.k = "badlen" -> {"C06"} [] d.k = "fn" -> {"C11"} [] OTHER -> {}
                  IN Flag(s1, {"C02"} \cup UNION {kp(d) : d \in diff}, "the keep-going run does not report exactly the independent faults of the payload"))
       ELSE s1

\* A keep-going run that was already charged with a deviation still owes one report per independent fault of the payload: the
\* missing fields, unknown keys, unknown values and wrong lengths that it never reported are charged to the properties that promise
\* them (the machine is no longer followed, so only what the payload alone determines is judged: no user-function failures)
\* ... and whatever happened, the result of the call is made of the reports the error type was asked to record (C01): Ok only
\* when there was none, Err with exactly those
DoneC01(s, e) ==
    IF s.cur.etype # "rec" \/ s.cur.deep THEN s
    ELSE IF e.ok /\ Len(s.repids) > 0 THEN SoftFlag(s, {"C01"}, "deserialize returns Ok although the error type was asked to record something")
    ELSE IF ~e.ok /\ ~SameBag(e.ids, s.repids) THEN SoftFlag(s, {"C01"}, "the final error is not made of exactly the reports of the call")
    ELSE s
DoneDegraded(s0, e) ==
    LET s == DoneC01(s0, e) IN
    IF ~(s.cur.allc /\ s.cur.etype = "rec" /\ ~s.cur.deep) THEN s
    ELSE LET faults == Faults(s.cur.ty, s.cur.val, <<>>, s.cur.pk, {})
             lost == {faults[j] : j \in {k \in 1..Len(faults) : faults[k].k \in {"missing", "unknownkey", "unknownvalue", "badlen"}
                                                                 /\ Count(s.reps, faults[k]) < Count(faults, faults[k])}}
             kp(d) == CASE d.k = "missing" -> {"C08"} [] d.k = "unknownkey" -> {"C09"} [] d.k = "unknownvalue" -> {"C10"} [] OTHER -> {"C06"}
         IN IF lost = {} THEN s ELSE SoftFlag(s, UNION {kp(d) : d \in lost}, "a keep-going run never reports a fault of the payload that nothing hides")

\* What is still recorded once a run has been charged with a deviation: the reports it makes (for the comparisons
\* between runs of the same input, which do not depend on the specification) - nothing else is judged.
Degraded(s, e) ==
    CASE e.e = "err" -> [s EXCEPT !.reps = Append(@, ObsDesc(e)), !.repids = Append(@, e.id),
                                  !.ref1 = IF s.cur.isref /\ ~@.has THEN [has |-> TRUE, mj |-> e.mj, mq |-> e.mq] ELSE @]
      [] e.e = "mrg" /\ Len(e.src) > 3 /\ SubSeq(e.src, 1, 3) = "fn:" ->
            [s EXCEPT !.reps = Append(@, FnDesc(SubSeq(e.src, 4, Len(e.src)), e.loc)), !.repids = Append(@, IF Len(e.other) > 0 THEN e.other[1] ELSE 0),
                      !.ref1 = IF s.cur.isref /\ ~@.has THEN [has |-> TRUE, mj |-> e.mj, mq |-> e.mq] ELSE @]
      [] OTHER -> s

\* comparisons between the runs of one input (implementation against itself): member order (C15), built-in error types (C03d / C14)
\* the reports the returned error is made of (as descriptors)
FinalDescs(s, ids) == LET js == {j \in 1..Len(s.reps) : j <= Len(s.repids) /\ s.repids[j] \in SeqToSet(ids)} IN
                      LET RECURSIVE f(_) f(T) == IF T = {} THEN <<>> ELSE LET x == CHOOSE y \in T : \A z \in T : y <= z IN <<s.reps[x]>> \o f(T \ {x}) IN f(js)

GroupDone(s, e) ==
    IF s.cur.etype # "rec" THEN
        IF ~s.refdone.has THEN s
        ELSE IF s.refdone.ok THEN
             (IF e.ok /\ e.val = s.refdone.val THEN Seen(s, {"C03", "C14"}) ELSE Flag(s, {"C03"}, "a built-in error type fails (or yields another value) where the keep-going run succeeds"))
        ELSE IF e.ok THEN Flag(s, {"C03", "C01"}, "a built-in error type returns Ok where the keep-going run reports faults")
        ELSE IF ~s.ref1.has THEN s
        ELSE IF e.msg = (IF s.cur.etype = "json" THEN s.ref1.mj ELSE s.ref1.mq) THEN Seen([s EXCEPT !.nmsg = @ + 1], {"C03", "C14"})
        ELSE Flag(s, {"C03", "C14"}, "the always-stop error type does not return the first report of the keep-going run")
    ELSE IF s.cur.isref THEN [s EXCEPT !.refdone = [has |-> TRUE, ok |-> e.ok, val |-> e.val, reps |-> s.reps, final |-> FinalDescs(s, e.ids)]]
    ELSE IF s.cur.perm /\ s.refdone.has THEN
         (IF e.ok = s.refdone.ok /\ (e.ok => e.val = s.refdone.val)
             /\ (s.cur.allc => SameBag(NoAct(s.reps), NoAct(s.refdone.reps)))                          \* the reports the error type receives
             /\ (s.cur.allc => SameBag(NoAct(FinalDescs(s, e.ids)), NoAct(s.refdone.final)))           \* ... and the ones the outcome is made of
          THEN Seen([s EXCEPT !.nperm = @ + 1], {"C15"})
          ELSE Flag(s, {"C15"}, "permuting object members changes the value or the set of reports"))
    ELSE IF s.cur.extra /\ s.refdone.has THEN
         \* C09: without deny_unknown_fields, unknown keys have no influence whatsoever
         (IF e.ok = s.refdone.ok /\ (e.ok => e.val = s.refdone.val) /\ SameBag(NoAct(s.reps), NoAct(s.refdone.reps))
             /\ SameBag(NoAct(FinalDescs(s, e.ids)), NoAct(s.refdone.final))
          THEN Seen([s EXCEPT !.nperm = @ + 1], {"C09"})
          ELSE Flag(s, {"C09"}, "adding unknown keys changes the value or the reports although deny_unknown_fields is absent"))
    ELSE s

\* C14: the two built-in renderings of a report (logged for every report of a reference run over serde_json)
MsgStep(s, e) ==
    IF ~e.ma.has \/ s.cur.src # "json" THEN s
    ELSE IF MessagesAgree(e, s.cur.val) THEN Seen([s EXCEPT !.nmsg = @ + 1], {"C14"})
    ELSE SoftFlag(s, {"C14"}, "a built-in message does not consist of the path, value, names and alternatives of the report it renders")

\* Probe-free twins (the definitions written the way a user writes them: the derive sees `Option<u8>`, `Vec<bool>` ... as such).
\* Without probes there are no enter / exit events and the machine cannot be followed; the run is judged at its end against the
\* declarative semantics: a keep-going run reports exactly Faults and a successful run yields ValueOf; every run's result is made
\* of the reports it made (C01); scripted runs are compared with the keep-going run event by event (PrefixStep), built-in error
\* types with its first report, permuted / extended runs with the reference run (GroupDone), messages with DMessages.
BareEvent(s, e) ==
    CASE e.e = "err" -> LET m == MsgStep(s, e) IN
                        [m EXCEPT !.reps = Append(@, ObsDesc(e)), !.repids = Append(@, e.id), !.nrep = @ + 1, !.made = @ \cup {e.id},
                                  !.nbrk = IF e.ans = "b" THEN @ + 1 ELSE @,
                                  !.ref1 = IF s.cur.isref /\ ~@.has THEN [has |-> TRUE, mj |-> e.mj, mq |-> e.mq] ELSE @]
      [] OTHER -> s
BareRootProps(n) == ExitProps(Nodes[n]) \cup {"C06"}
BareDone(s0, e) ==
    LET s == DoneC01(s0, e)
        \* the one freedom that shows in a twin: a unit variant under deny_unknown_fields that reports the members next to its tag
        \* (see LaxUnit) - the fact is read off the reports themselves (it only matters at the location of such a variant)
        facts == {[f |-> "unitdeny", loc |-> s0.reps[j].loc, j |-> 0] : j \in {k \in 1..Len(s0.reps) : s0.reps[k].k \in {"unknownkey", "fn"}}}
        faults == Faults(s.cur.ty, s.cur.val, <<>>, s.cur.pk, facts)
        got == s.reps
        diff == {got[j] : j \in {k \in 1..Len(got) : Count(got, got[k]) # Count(faults, got[k])}}
                \cup {faults[j] : j \in {k \in 1..Len(faults) : Count(got, faults[k]) # Count(faults, faults[k])}}
        kp(d) == CASE d.k = "missing" -> {"C08"} [] d.k = "unknownkey" -> {"C09"} [] d.k = "unknownvalue" -> {"C10"}
                   [] d.k = "badlen" -> {"C06"} [] OTHER -> {}
        s1 == [s EXCEPT !.phase = "done"]
    IN IF s.cur.etype # "rec" THEN s1
       ELSE IF s.cur.allc /\ ~SameBag(got, faults)
            THEN Flag(s1, {"C02", "C04"} \cup UNION {kp(d) : d \in diff}, "a probe-free type: the keep-going run does not report exactly the independent faults of the payload")
       \* (ValueOf is the value of a payload without faults: asked only when there is none)
       ELSE IF e.ok /\ faults # <<>> THEN Flag(s1, {"C02", "C04"} \cup BareRootProps(s.cur.ty) \cup UNION {kp(faults[j]) : j \in 1..Len(faults)},
                                            "a probe-free type: Ok is returned for a payload that has faults")
       ELSE IF e.ok /\ ~EqMod(e.val, ValueOf(s.cur.ty, s.cur.val, s.cur.pk))
            THEN Flag(s1, BareRootProps(s.cur.ty), "a probe-free type: the value returned is not the one the payload prescribes")
       ELSE Seen(s1, {"C01", "C02", "C06", "C07", "C08", "C09", "C10"})

Step(s, e) ==
    CASE e.e \in {"reset", "run"} -> StartRun(s, e)
      [] e.e = "panic" -> Flag(s, {"C12"} \cup (IF s.cur.extra THEN {"C09"} ELSE {}) \cup (IF s.cur.perm THEN {"C15"} ELSE {}),
                               "deserialize panicked")      \* a panic is a fact, whatever happened before in the run
      [] s.cur.deep -> s                                                 \* deep nests are not spelled out: only totality is judged
      [] e.e = "done"  -> GroupDone(IF s.cur.bare THEN BareDone(s, e) ELSE IF s.runbad THEN DoneDegraded(s, e) ELSE OnDone(s, e), e)
      [] s.cur.etype # "rec" -> s
      [] OTHER ->
            LET p == PrefixStep(s, e) IN
            IF s.cur.bare THEN BareEvent(p, e)
            ELSE IF p.runbad THEN Degraded(IF e.e = "err" THEN MsgStep(p, e) ELSE p, e)
            ELSE CASE e.e = "enter" -> OnEnter(p, e)
                   [] e.e = "err"   -> OnErr(MsgStep(p, e), e)
                   [] e.e = "mrg"   -> OnMrg(p, e)
                   [] e.e = "exit"  -> OnExit(p, e)
                   [] e.e = "call"  -> OnCall(p, e)
                   [] e.e = "ret"   -> OnRet(p, e)
                   [] OTHER -> p

TraceInit == st = InitSt /\ l = 1
TraceNext == /\ l <= Len(Rec)
             /\ l' = l + 1
             /\ st' = [Step(st, Rec[l]) EXCEPT !.nev = @ + 1]
TraceSpec == TraceInit /\ [][TraceNext]_tvars

Final == l = Len(Rec) + 1
Report == Final => PrintT(<<"RESULT", ToJson([lines |-> Len(Rec), vcount |-> st.vcount, viol |-> st.viol, runs |-> st.nruns,
                                               reports |-> st.nrep, breaks |-> st.nbrk, compared |-> st.ncmp, perms |-> st.nperm,
                                               msgs |-> st.nmsg, calls |-> st.ncall, checked |-> st.ncheck])>>)
TraceAccepted == TLCGet("stats").diameter = Len(Rec) + 1
=============================================================================
