------------------------------- MODULE MC_dym -------------------------------
EXTENDS DDidYouMean, TLC, Json
EmitReplay == PrintT(<<"REPLAY", ToJson([r |-> r, acc |-> <<t>>])>>)
EmitReplay2 == PrintT(<<"REPLAY", ToJson([r |-> r, acc |-> <<t, RevSeq(t)>>])>>)
=============================================================================
