------------------------------ MODULE Trace_dym ------------------------------
(* Trace validation for C18: every line is one call of the real did_you_mean  *)
(* with the received string, the accepted list (both as text and as scalar    *)
(* value sequences) and the returned string.                                  *)
EXTENDS DDidYouMean, Json, IOUtils, TLC

Rec == ndJsonDeserialize(IOEnv.TRACE)

VARIABLES l, nviol, viol, nsug, exp
tvars == <<r, t, l, nviol, viol, nsug, exp>>

AccCp(e) == [k \in 1..Len(e.inp.acc) |-> e.inp.acc[k].cp]
\* the string the call must name ("" = no suggestion); the wording around the name is not fixed by the property, the harness
\* logs the named string (between the outermost back-quotes) next to the raw text
Expected(e) == Suggest(e.inp.r.cp, AccCp(e))        \* index of the accepted string to name, 0 = none
Agrees(e, j) == IF j = 0 THEN e.empty ELSE ~e.empty /\ e.named = e.inp.acc[j].s

TraceInit == r = <<>> /\ t = <<>> /\ l = 1 /\ nviol = 0 /\ viol = <<>> /\ nsug = 0 /\ exp = 0

TraceNext ==
    /\ l <= Len(Rec)
    /\ l' = l + 1
    /\ LET e == Rec[l] IN
         /\ r' = e.inp.r.cp
         /\ t' = IF Len(e.inp.acc) > 0 THEN e.inp.acc[1].cp ELSE <<>>
         /\ exp' = Expected(e)               \* what the specification says the call returns (evaluated once)
         /\ nsug' = IF exp' # 0 THEN nsug + 1 ELSE nsug
         /\ nviol' = IF Agrees(e, exp') THEN nviol ELSE nviol + 1
         /\ viol'  = IF ~Agrees(e, exp') /\ Len(viol) < 10 THEN Append(viol, l) ELSE viol

TraceSpec == TraceInit /\ [][TraceNext]_tvars
Final == l = Len(Rec) + 1
Report == Final => PrintT(<<"RESULT", ToJson([lines |-> Len(Rec), nviol |-> nviol, viol |-> viol, suggestions |-> nsug])>>)
TraceAccepted == TLCGet("stats").diameter = Len(Rec) + 1
=============================================================================
