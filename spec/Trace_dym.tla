------------------------------ MODULE Trace_dym ------------------------------
(* Trace validation for C18: every line is one call of the real did_you_mean  *)
(* with the received string, the accepted list (both as text and as scalar    *)
(* value sequences) and the returned string.                                  *)
EXTENDS DDidYouMean, Json, IOUtils, TLC

Rec == ndJsonDeserialize(IOEnv.TRACE)

VARIABLES l, nviol, viol, nsug, exp
tvars == <<r, t, l, nviol, viol, nsug, exp>>

AccCp(e) == [k \in 1..Len(e.inp.acc) |-> e.inp.acc[k].cp]
Expected(e) == LET j == Suggest(e.inp.r.cp, AccCp(e))
               IN IF j = 0 THEN "" ELSE "did you mean `" \o e.inp.acc[j].s \o "`? "

TraceInit == r = <<>> /\ t = <<>> /\ l = 1 /\ nviol = 0 /\ viol = <<>> /\ nsug = 0 /\ exp = ""

TraceNext ==
    /\ l <= Len(Rec)
    /\ l' = l + 1
    /\ LET e == Rec[l] IN
         /\ r' = e.inp.r.cp
         /\ t' = IF Len(e.inp.acc) > 0 THEN e.inp.acc[1].cp ELSE <<>>
         /\ exp' = Expected(e)               \* what the specification says the call returns (evaluated once)
         /\ nsug' = IF exp' # "" THEN nsug + 1 ELSE nsug
         /\ nviol' = IF e.out = exp' THEN nviol ELSE nviol + 1
         /\ viol'  = IF e.out # exp' /\ Len(viol) < 10 THEN Append(viol, l) ELSE viol

TraceSpec == TraceInit /\ [][TraceNext]_tvars
Final == l = Len(Rec) + 1
Report == Final => PrintT(<<"RESULT", ToJson([lines |-> Len(Rec), nviol |-> nviol, viol |-> viol, suggestions |-> nsug])>>)
TraceAccepted == TLCGet("stats").diameter = Len(Rec) + 1
=============================================================================
