SPECIFICATION TraceSpec
CONSTANTS
  Keys = {}
  Idxs = {}
  MaxLen = 0
INVARIANT Report
INVARIANT Refines
POSTCONDITION TraceAccepted
CHECK_DEADLOCK FALSE
