----------------------------- MODULE Trace_kinds -----------------------------
(* Trace validation for C17: every "reset" line is one call of the real       *)
(* value_kinds_description_json with its input list, its output and the items *)
(* the output is joined from.  What the property fixes is judged: the phrase   *)
(* depends only on the SET of kinds, names every kind of the set and nothing  *)
(* else ('a number' covering the integer kinds, 'an integer' for both integer *)
(* kinds without floats, the individual names otherwise), is joined as 'a',   *)
(* 'a or b', 'a, b, or c', in ONE fixed order, with a generic fallback for    *)
(* the empty list.  What it leaves open is read from the implementation once  *)
(* (the "probe" line at the head of every shard): the individual names, the   *)
(* fallback text and which fixed order it is.  DKinds!DescSpec / DescImpl     *)
(* (the pinned wording and order, model-checked in MC_kinds) are one instance.*)
EXTENDS DKinds, Json, IOUtils, TLC

Rec == ndJsonDeserialize(IOEnv.TRACE)

VARIABLES l, nviol, viol, pr
tvars == <<kinds, l, nviol, viol, pr>>

NoProbe == [has |-> FALSE, names |-> [k \in Kinds |-> ""], empty |-> "", pairs |-> {}]
BothInts(S) == "Integer" \in S /\ "NegativeInteger" \in S
Individual(S) == (S \ {"Float"}) \ (IF "Float" \in S \/ BothInts(S) THEN {"Integer", "NegativeInteger"} ELSE {})
ItemSet(S, p) == {p.names[k] : k \in Individual(S)}
                 \cup (IF "Float" \in S THEN {"a number"} ELSE IF BothInts(S) THEN {"an integer"} ELSE {})

ProbeSane(p) ==
    /\ p.names["Float"] = "a number"                                   \* floats are 'a number' (which stands for the integer kinds too)
    /\ \A k \in Kinds \ {"Float"} : p.names[k] \notin {"a number", "an integer", ""}
    /\ \A j, k \in Kinds : j # k => p.names[j] # p.names[k]             \* every kind has a name of its own
    /\ p.empty # "" /\ p.empty \notin {p.names[k] : k \in Kinds} \cup {"an integer"}
    /\ \A x \in p.pairs : <<x[2], x[1]>> \notin p.pairs /\ x[1] # x[2]  \* one fixed order

Agrees(e, p) ==
    LET S == Range(e.inp.kinds) IN
    /\ p.has
    /\ IF S = {} THEN e.out = p.empty
       ELSE /\ Join(e.items) = e.out                                   \* 'a', 'a or b', 'a, b, or c'
            /\ Range(e.items) = ItemSet(S, p)                           \* every kind of the set, nothing outside it
            /\ Len(e.items) = Cardinality(ItemSet(S, p))                \* ... once
            /\ \A i, j \in 1..Len(e.items) : i < j => <<e.items[i], e.items[j]>> \in p.pairs     \* in the fixed order

TraceInit == kinds = <<>> /\ l = 1 /\ nviol = 0 /\ viol = <<>> /\ pr = NoProbe

TraceNext ==
    /\ l <= Len(Rec)
    /\ l' = l + 1
    /\ LET e == Rec[l] IN
         IF e.e = "probe"
         THEN LET p == [has |-> TRUE, names |-> e.names, empty |-> e.empty, pairs |-> {e.pairs[j] : j \in 1..Len(e.pairs)}] IN
              /\ pr' = p /\ kinds' = kinds
              /\ nviol' = IF ProbeSane(p) THEN nviol ELSE nviol + 1
              /\ viol'  = IF ~ProbeSane(p) /\ Len(viol) < 10 THEN Append(viol, l) ELSE viol
         ELSE /\ kinds' = e.inp.kinds              \* the machine is set to the logged list
              /\ pr' = pr
              /\ \A j \in 1..Len(e.inp.kinds) : e.inp.kinds[j] \in Kinds
              /\ nviol' = IF Agrees(e, pr) THEN nviol ELSE nviol + 1
              /\ viol'  = IF ~Agrees(e, pr) /\ Len(viol) < 10 THEN Append(viol, l) ELSE viol

TraceSpec == TraceInit /\ [][TraceNext]_tvars
Final == l = Len(Rec) + 1
Report == Final => PrintT(<<"RESULT", ToJson([lines |-> Len(Rec), nviol |-> nviol, viol |-> viol])>>)
TraceAccepted == TLCGet("stats").diameter = Len(Rec) + 1
=============================================================================
