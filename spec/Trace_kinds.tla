----------------------------- MODULE Trace_kinds -----------------------------
(* Trace validation for C17: every line is one call of the real              *)
(* value_kinds_description_json (and the query-parameter twin) with its input *)
(* list and its output; the output must be the phrase DescSpec assigns to the *)
(* SET of the input (and what the transcription DescImpl computes).           *)
EXTENDS DKinds, Json, IOUtils, TLC

Rec == ndJsonDeserialize(IOEnv.TRACE)

VARIABLES l, nviol, viol
tvars == <<kinds, l, nviol, viol>>

Agrees(e) == /\ e.out = DescSpec(Range(e.inp.kinds))
             /\ e.out = DescImpl(e.inp.kinds)
             /\ e.qout = QueryDescSpec(Range(e.inp.kinds))

TraceInit == kinds = <<>> /\ l = 1 /\ nviol = 0 /\ viol = <<>>

TraceNext ==
    /\ l <= Len(Rec)
    /\ l' = l + 1
    /\ LET e == Rec[l] IN
         /\ kinds' = e.inp.kinds              \* the machine is set to the logged list
         /\ \A j \in 1..Len(e.inp.kinds) : e.inp.kinds[j] \in Kinds
         /\ nviol' = IF Agrees(e) THEN nviol ELSE nviol + 1
         /\ viol'  = IF ~Agrees(e) /\ Len(viol) < 10 THEN Append(viol, l) ELSE viol

TraceSpec == TraceInit /\ [][TraceNext]_tvars
Final == l = Len(Rec) + 1
Report == Final => PrintT(<<"RESULT", ToJson([lines |-> Len(Rec), nviol |-> nviol, viol |-> viol])>>)
TraceAccepted == TLCGet("stats").diameter = Len(Rec) + 1
=============================================================================
