------------------------------- MODULE DDerive -------------------------------
(***************************************************************************)
(* C16 - the front end of #[derive(Deserr)] as a state machine.            *)
(*                                                                         *)
(* A derive input is a shape plus, at one of three levels (container,      *)
(* first variant, first field), a list of attribute items; each item is    *)
(* written in some #[deserr(..)] group.  The machine consumes the items in *)
(* order, exactly like the parser does (item by item inside a group, group *)
(* by group), filling one slot per single-valued attribute, and then runs  *)
(* the final checks (attribute combinations, shape).  The outcome is       *)
(* Reject(cause) or Accept.                                                *)
(*                                                                         *)
(* Invariants: NoOverride (a slot is never written twice on the way to     *)
(* Accept), NoDrop (every item written is reflected in a slot or flag),    *)
(* PoisonRejected (each rejection cause the property lists ends in Reject),*)
(* OnlyPoisonRejected (nothing else does).                                 *)
(***************************************************************************)
EXTENDS Naturals, Sequences, FiniteSets

CONSTANTS MaxItems      \* bound on the number of items at the level under test

Shapes == {"struct_named", "struct_tuple", "struct_unit", "union", "enum_unit", "enum_named_tag", "enum_named_notag", "enum_tuple_tag"}
Levels == {"container", "variant", "field"}

\* item kinds per level.  `form`: "ok" | "badvalue" (rename_all = bogus) | "malformed" (missing `=`, trailing tokens)
\* "attr_shape" stands for a whole attribute written without a parenthesised list: `#[deserr]` (form bare) or `#[deserr = ".."]` (form nameval)
ContainerNames == {"rename_all", "tag", "error", "deny_flag", "deny_fn", "from", "try_from", "validate", "where_predicate", "unknown", "attr_shape"}
VariantNames   == {"rename", "rename_all", "unknown", "attr_shape"}
FieldNames     == {"rename", "default_flag", "default_expr", "skip", "map", "from", "try_from", "missing_field_error", "error", "needs_predicate", "unknown", "attr_shape"}
NamesOf(level) == CASE level = "container" -> ContainerNames [] level = "variant" -> VariantNames [] level = "field" -> FieldNames

\* the single-valued slot an item writes ("" for flags / multi-valued / unknown)
SlotOf(level, name) ==
    CASE name \in {"deny_flag", "deny_fn"} -> "deny_unknown_fields"
      [] name \in {"default_flag", "default_expr"} -> "default"
      [] name \in {"skip", "needs_predicate", "where_predicate", "unknown", "attr_shape"} -> ""
      [] OTHER -> name

FormsOf(name) == IF name = "rename_all" THEN {"ok", "badvalue", "malformed"} ELSE IF name \in {"skip", "needs_predicate", "deny_flag", "default_flag", "unknown"} THEN {"ok"}
                 ELSE IF name = "attr_shape" THEN {"bare", "nameval"}
                 ELSE {"ok", "malformed"}

Item(name, form, grp) == [name |-> name, form |-> form, grp |-> grp]

VARIABLES shape, level, items,     \* the derive input being written (grows)
          queue,                   \* what the parser reads: the items, preceded by the base `tag` of a tagged enum when none is written
          pos, slots, flags, verdict, cause, wrote

dvars == <<shape, level, items, queue, pos, slots, flags, verdict, cause, wrote>>

(* ------------------------------ the input ------------------------------- *)
\* which shapes make sense for a level under test
ShapesFor(lv) == CASE lv = "container" -> {"struct_named", "enum_named_tag"}
                   [] lv = "variant"   -> {"enum_named_tag"}
                   [] lv = "field"     -> {"struct_named"}

Init == /\ level \in Levels
        /\ shape \in Shapes
        /\ (shape \in ShapesFor(level) \/ level = "container")       \* unsupported shapes are tried with no items
        /\ items = <<>> /\ queue = <<>> /\ pos = 0 /\ slots = {} /\ flags = {} /\ verdict = "writing" /\ cause = "" /\ wrote = <<>>

\* extend the input by one item, in the current group or in a new one
Write == /\ verdict = "writing" /\ Len(items) < MaxItems
         /\ shape \in ShapesFor(level)
         /\ \E n \in NamesOf(level) : \E f \in FormsOf(n) : \E g \in {0, 1} :
               LET grp == IF Len(items) = 0 THEN 1 ELSE items[Len(items)].grp + g
               IN items' = Append(items, Item(n, f, grp))
         /\ UNCHANGED <<shape, level, queue, pos, slots, flags, verdict, cause, wrote>>

Tagged(sh) == sh \in {"enum_named_tag", "enum_tuple_tag"}
\* a tagged enum carries `#[deserr(tag = "t")]` in a group of its own unless the items under test write a tag themselves
EffItems(sh, lv, its) ==
    IF lv = "container" /\ Tagged(sh) /\ ~\E j \in 1..Len(its) : its[j].name = "tag" THEN <<Item("tag", "ok", 0)>> \o its ELSE its

StartParse == /\ verdict = "writing"
              /\ verdict' = "parsing" /\ pos' = 1 /\ queue' = EffItems(shape, level, items)
              /\ UNCHANGED <<shape, level, items, slots, flags, cause, wrote>>

(* ------------------------------ the parser ------------------------------ *)
Reject(c) == verdict' = "reject" /\ cause' = c /\ UNCHANGED <<shape, level, items, queue, pos, slots, flags, wrote>>

\* consume item `pos`: syntax, name, value, then merge into the accumulated attributes
Consume ==
    /\ verdict = "parsing" /\ pos <= Len(queue)
    /\ LET it == queue[pos] slot == SlotOf(level, it.name) IN
       IF it.form \in {"malformed", "bare", "nameval"} THEN Reject("syntax")
       ELSE IF it.name = "unknown" THEN Reject("unknown attribute")
       ELSE IF it.form = "badvalue" THEN Reject("invalid rename_all value")
       ELSE IF slot # "" /\ slot \in slots THEN Reject("attribute given twice")
       ELSE IF slot = "from" /\ "try_from" \in slots THEN Reject("from together with try_from")
       ELSE IF slot = "try_from" /\ "from" \in slots THEN Reject("from together with try_from")
       ELSE /\ slots' = IF slot # "" THEN slots \cup {slot} ELSE slots
            /\ flags' = IF slot = "" THEN flags \cup {it.name} ELSE flags
            /\ wrote' = Append(wrote, it.name)
            /\ pos' = pos + 1
            /\ UNCHANGED <<shape, level, items, queue, verdict, cause>>

\* the checks made once all attributes are read (validate_container_attributes, then the shape)
Finish ==
    /\ verdict = "parsing" /\ pos = Len(queue) + 1
    /\ LET cont == IF level = "container" THEN slots ELSE {}
           isStruct == shape \in {"struct_named", "struct_tuple", "struct_unit"}
       IN IF "try_from" \in cont /\ cont \cap {"rename_all", "tag", "deny_unknown_fields"} # {} THEN Reject("try_from with rename_all / tag / deny_unknown_fields")
          ELSE IF isStruct /\ "tag" \in cont THEN Reject("tag on a struct")
          ELSE IF cont \cap {"from", "try_from"} # {} THEN verdict' = "accept" /\ cause' = "" /\ UNCHANGED <<shape, level, items, queue, pos, slots, flags, wrote>>
          ELSE IF shape = "struct_tuple" THEN Reject("tuple struct")
          ELSE IF shape = "struct_unit" THEN Reject("unit struct")
          ELSE IF shape = "union" THEN Reject("union")
          ELSE IF shape = "enum_tuple_tag" THEN Reject("variant with unnamed data")
          ELSE IF shape = "enum_named_notag" THEN Reject("data-carrying enum without tag")
          ELSE verdict' = "accept" /\ cause' = "" /\ UNCHANGED <<shape, level, items, queue, pos, slots, flags, wrote>>

Next == Write \/ StartParse \/ Consume \/ Finish
Spec == Init /\ [][Next]_dvars

(* ------------- the same parser as a function of the written input -------- *)
RECURSIVE ParseFrom(_, _, _, _)
ParseFrom(lv, q, i, sl) ==
    IF i > Len(q) THEN [v |-> "ok", slots |-> sl]
    ELSE LET it == q[i] slot == SlotOf(lv, it.name) IN
         IF it.form \in {"malformed", "bare", "nameval"} THEN [v |-> "syntax", slots |-> sl]
         ELSE IF it.name = "unknown" THEN [v |-> "unknown attribute", slots |-> sl]
         ELSE IF it.form = "badvalue" THEN [v |-> "invalid rename_all value", slots |-> sl]
         ELSE IF slot # "" /\ slot \in sl THEN [v |-> "attribute given twice", slots |-> sl]
         ELSE IF (slot = "from" /\ "try_from" \in sl) \/ (slot = "try_from" /\ "from" \in sl) THEN [v |-> "from together with try_from", slots |-> sl]
         ELSE ParseFrom(lv, q, i + 1, IF slot # "" THEN sl \cup {slot} ELSE sl)

Outcome(sh, lv, its) ==
    LET p == ParseFrom(lv, EffItems(sh, lv, its), 1, {})
        cont == IF lv = "container" THEN p.slots ELSE {}
        rej(c) == [verdict |-> "reject", cause |-> c]
    IN IF p.v # "ok" THEN rej(p.v)
       ELSE IF "try_from" \in cont /\ cont \cap {"rename_all", "tag", "deny_unknown_fields"} # {} THEN rej("try_from with rename_all / tag / deny_unknown_fields")
       ELSE IF sh \in {"struct_named", "struct_tuple", "struct_unit"} /\ "tag" \in cont THEN rej("tag on a struct")
       ELSE IF cont \cap {"from", "try_from"} # {} THEN [verdict |-> "accept", cause |-> ""]
       ELSE IF sh = "struct_tuple" THEN rej("tuple struct") ELSE IF sh = "struct_unit" THEN rej("unit struct") ELSE IF sh = "union" THEN rej("union")
       ELSE IF sh = "enum_tuple_tag" THEN rej("variant with unnamed data") ELSE IF sh = "enum_named_notag" THEN rej("data-carrying enum without tag")
       ELSE [verdict |-> "accept", cause |-> ""]

(* ---------------- the property, stated on the written input -------------- *)
Names(its) == [j \in 1..Len(its) |-> its[j].name]
CountSlot(its, lv, slot) == Cardinality({j \in 1..Len(its) : SlotOf(lv, its[j].name) = slot})
SingleSlots(lv) == {SlotOf(lv, n) : n \in NamesOf(lv)} \ {""}

Poisoned(sh, lv, its) ==
    \/ \E j \in 1..Len(its) : its[j].form # "ok"                                  \* malformed syntax / invalid rename_all value
    \/ \E j \in 1..Len(its) : its[j].name = "unknown"                            \* unknown attribute
    \/ \E sl \in SingleSlots(lv) : CountSlot(its, lv, sl) >= 2                    \* a single-valued attribute given twice
    \/ (CountSlot(its, lv, "from") >= 1 /\ CountSlot(its, lv, "try_from") >= 1)   \* from together with try_from
    \/ (lv = "container" /\ sh = "struct_named" /\ CountSlot(its, lv, "tag") >= 1)  \* tag on a struct
    \/ (lv = "container" /\ CountSlot(its, lv, "try_from") >= 1
            /\ (CountSlot(its, lv, "rename_all") + CountSlot(its, lv, "deny_unknown_fields") + CountSlot(its, lv, "tag") >= 1
                \/ Tagged(sh)))                                                   \* container try_from with rename_all / tag / deny
    \/ (sh \in {"struct_tuple", "struct_unit", "union", "enum_tuple_tag", "enum_named_notag"}
            /\ ~(lv = "container" /\ CountSlot(its, lv, "from") + CountSlot(its, lv, "try_from") >= 1))   \* unsupported shape

Decided == verdict \in {"accept", "reject"}
PoisonRejected     == (Decided /\ Poisoned(shape, level, items)) => verdict = "reject"
OnlyPoisonRejected == (Decided /\ ~Poisoned(shape, level, items)) => verdict = "accept"
\* on the way to Accept no slot is written twice and nothing written is dropped
NoOverride == \A a, b \in 1..Len(wrote) : (a # b /\ SlotOf(level, wrote[a]) # "" /\ SlotOf(level, wrote[a]) = SlotOf(level, wrote[b])) => FALSE
NoDrop == verdict = "accept" => /\ Len(wrote) = Len(queue)
                                /\ \A j \in 1..Len(items) : IF SlotOf(level, items[j].name) = "" THEN items[j].name \in flags ELSE SlotOf(level, items[j].name) \in slots
MachineIsFunction == Decided => [verdict |-> verdict, cause |-> cause] = Outcome(shape, level, items)
NeverStuck == (verdict = "parsing") => (pos <= Len(queue) + 1)
=============================================================================
