SPECIFICATION Spec
CONSTANT MaxLen = 6
INVARIANT ImplMeetsSpec
INVARIANT OrderFree
INVARIANT EmitReplay
CHECK_DEADLOCK FALSE
