------------------------------- MODULE DScalar -------------------------------
(***************************************************************************)
(* C05 - scalar admission.  Outcome(ty, v) is the property as a function:  *)
(* for each of the 30 scalar targets and each value, exactly one of        *)
(*    ok      - admissible kind, inside the domain: the result IS the input *)
(*    kind    - inadmissible kind: the exact set of admissible kinds        *)
(*    domain  - admissible kind, outside the domain: which bound is         *)
(*              violated (max / min / zero / empty / len) and its value     *)
(* Numbers are digit sequences (DDigits), so bounds up to 2^128 are exact.  *)
(*                                                                         *)
(* A value is a record [t, b, sg, d, s, n] (one shape for all kinds):       *)
(*   t \in null|bool|int|neg|float|str|seq|map ; b boolean ; sg,d signed    *)
(*   digits (int: Value::Integer(u64); neg: Value::NegativeInteger(i64),    *)
(*   whose content MAY be non-negative when the value source is not         *)
(*   serde_json) ; s text ; n number of scalar values / elements.           *)
(***************************************************************************)
EXTENDS DDigits, FiniteSets

Targets == {"bool", "unit", "char", "String",
            "u8", "u16", "u32", "u64", "u128", "usize",
            "i8", "i16", "i32", "i64", "i128", "isize",
            "NonZeroU8", "NonZeroU16", "NonZeroU32", "NonZeroU64", "NonZeroU128", "NonZeroUsize",
            "NonZeroI8", "NonZeroI16", "NonZeroI32", "NonZeroI64", "NonZeroI128", "NonZeroIsize",
            "f32", "f64"}

Cls(ty) ==
    CASE ty \in {"u8", "u16", "u32", "u64", "u128", "usize"} -> "uint"
      [] ty \in {"i8", "i16", "i32", "i64", "i128", "isize"} -> "sint"
      [] ty \in {"NonZeroU8", "NonZeroU16", "NonZeroU32", "NonZeroU64", "NonZeroU128", "NonZeroUsize"} -> "nzuint"
      [] ty \in {"NonZeroI8", "NonZeroI16", "NonZeroI32", "NonZeroI64", "NonZeroI128", "NonZeroIsize"} -> "nzsint"
      [] ty \in {"f32", "f64"} -> "float"
      [] ty = "bool" -> "bool" [] ty = "unit" -> "unit" [] ty = "String" -> "string" [] ty = "char" -> "char"

\* pointer width is 64 bits on the platform the harness runs on (recorded as an assumption)
Bits(ty) ==
    CASE ty \in {"u8", "i8", "NonZeroU8", "NonZeroI8"} -> 8
      [] ty \in {"u16", "i16", "NonZeroU16", "NonZeroI16"} -> 16
      [] ty \in {"u32", "i32", "NonZeroU32", "NonZeroI32"} -> 32
      [] ty \in {"u64", "i64", "usize", "isize", "NonZeroU64", "NonZeroI64", "NonZeroUsize", "NonZeroIsize"} -> 64
      [] ty \in {"u128", "i128", "NonZeroU128", "NonZeroI128"} -> 128
      [] OTHER -> 0

Signed(ty) == Cls(ty) \in {"sint", "nzsint"}
NonZero(ty) == Cls(ty) \in {"nzuint", "nzsint"}
IsIntTarget(ty) == Cls(ty) \in {"uint", "sint", "nzuint", "nzsint"}

\* constant tables: TLC evaluates zero-argument constant definitions once, so the 2^k digit strings are
\* not recomputed for every state
IntTargets == {t \in Targets : IsIntTarget(t)}
Bounds == [t \in IntTargets |->
             IF Signed(t) THEN [max |-> Sgn(1, DDec(DPow2(Bits(t) - 1))), min |-> Sgn(-1, DPow2(Bits(t) - 1))]
             ELSE [max |-> Sgn(1, DDec(DPow2(Bits(t)))), min |-> SZero]]
MaxOf(ty) == Bounds[ty].max
MinOf(ty) == Bounds[ty].min

\* what a value of kind int / neg denotes
NumOf(v) == IF v.d = DZero THEN SZero ELSE Sgn(v.sg, v.d)

KindName(v) == CASE v.t = "null" -> "Null" [] v.t = "bool" -> "Boolean" [] v.t = "int" -> "Integer"
                 [] v.t = "neg" -> "NegativeInteger" [] v.t = "float" -> "Float" [] v.t = "str" -> "String"
                 [] v.t = "seq" -> "Sequence" [] v.t = "map" -> "Map"

Admissible(ty) ==
    CASE Cls(ty) \in {"uint", "nzuint"} -> {"Integer"}
      [] Cls(ty) \in {"sint", "nzsint"} -> {"Integer", "NegativeInteger"}
      [] Cls(ty) = "float"  -> {"Float", "Integer", "NegativeInteger"}
      [] Cls(ty) = "bool"   -> {"Boolean"}
      [] Cls(ty) = "unit"   -> {"Null"}
      [] Cls(ty) \in {"string", "char"} -> {"String"}

OOk        == [z |-> "ok",     which |-> "",  bound |-> SZero, acc |-> {}]
OKind(S)   == [z |-> "kind",   which |-> "",  bound |-> SZero, acc |-> S]
ODom(w, b) == [z |-> "domain", which |-> w,   bound |-> b,     acc |-> {}]

Outcome(ty, v) ==
    IF KindName(v) \notin Admissible(ty) THEN OKind(Admissible(ty))
    ELSE IF IsIntTarget(ty) THEN
        LET x == NumOf(v) IN
        IF NonZero(ty) /\ x = SZero THEN ODom("zero", SZero)
        ELSE IF ~SLeq(x, MaxOf(ty)) THEN ODom("max", MaxOf(ty))
        ELSE IF ~SLeq(MinOf(ty), x) THEN ODom("min", MinOf(ty))
        ELSE OOk
    ELSE IF Cls(ty) = "char" THEN
        (IF v.n = 1 THEN OOk ELSE IF v.n = 0 THEN ODom("empty", SZero) ELSE ODom("len", IntToSigned(v.n)))
    ELSE OOk        \* bool, unit, String, f32, f64: every value of an admissible kind is in the domain

(* --------------------- comparison with an observed result -------------- *)
\* res = [z, num, b, s, fexact, acc, nums, zero, empty, has_str, nerr] as logged by the harness
SeqRange(s) == {s[j] : j \in 1..Len(s)}

ResultAgrees(ty, v, res) ==
    LET o == Outcome(ty, v) IN
    CASE o.z = "ok" ->
            /\ res.z = "ok" /\ res.nerr = 0
            /\ CASE IsIntTarget(ty)      -> res.num = NumOf(v)          \* numerically the input: never wrapped, truncated, clamped
                 [] Cls(ty) = "bool"     -> res.b = v.b
                 [] Cls(ty) \in {"string", "char"} -> res.s = v.s
                 [] Cls(ty) = "float"    -> res.fexact                  \* IEEE conversion: decided by the harness oracle (DESIGN 5/C05)
                 [] OTHER                -> TRUE
      [] o.z = "kind" ->
            /\ res.z = "kind" /\ res.nerr = 1
            /\ SeqRange(res.acc) = o.acc                                \* exactly the admissible kinds
      [] o.z = "domain" ->
            /\ res.z = "msg" /\ res.nerr = 1
            /\ CASE o.which \in {"max", "min"} -> NumOf(v) \in SeqRange(res.nums) /\ o.bound \in SeqRange(res.nums)
                 [] o.which = "zero"  -> res.zero
                 [] o.which = "empty" -> res.empty
                 [] o.which = "len"   -> res.has_str /\ o.bound \in SeqRange(res.nums)

\* run-length encoded sweep event: all integers x = sg * (base + k), k \in kfrom..kto, in form `form` gave class cls
\* (base: digits of the end of the stretch nearest to zero; a stretch never crosses zero; k is small, base may exceed 32 bits)
RECURSIVE AddRev(_, _, _)
AddRev(ra, rb, carry) ==
    IF ra = <<>> /\ rb = <<>> THEN (IF carry = 0 THEN <<>> ELSE <<carry>>)
    ELSE LET a == IF ra = <<>> THEN 0 ELSE ra[1]
             b == IF rb = <<>> THEN 0 ELSE rb[1]
             t == a + b + carry
         IN <<t % 10>> \o AddRev(IF ra = <<>> THEN <<>> ELSE Tail(ra), IF rb = <<>> THEN <<>> ELSE Tail(rb), t \div 10)
DAddNat(a, k) == Strip(Rev(AddRev(Rev(a), Rev(NatToDigits(k)), 0)))
SweepNum(sg, base, k) == LET d == DAddNat(base, k) IN IF d = DZero THEN SZero ELSE Sgn(sg, d)
FormS(form, x) == [t |-> IF form = "int" THEN "int" ELSE "neg", b |-> FALSE, sg |-> x.sg, d |-> x.d, s |-> "", n |-> 0]

ClassOf(o) == IF o.z = "domain" THEN "msg" ELSE o.z

RangeAgrees(e) ==
    \A k \in e.kfrom..e.kto :
         LET o == Outcome(e.ty, FormS(e.form, SweepNum(e.sg, e.base, k))) IN
         /\ ClassOf(o) = e.cls
         /\ (o.z = "ok" => e.exact)
         /\ (o.z = "domain" /\ o.which \in {"max", "min"} => e.names_recv /\ o.bound \in SeqRange(e.others))
         /\ (o.z = "domain" /\ o.which = "zero" => e.zero)
         /\ (o.z = "kind" => SeqRange(e.acc) = o.acc)
=============================================================================
