SPECIFICATION Spec
CONSTANTS
  Alphabet = {97, 98, 233}
  MaxLen = 5
INVARIANT Zero
INVARIANT Structural
INVARIANT EmitReplay
INVARIANT EmitReplay2
CHECK_DEADLOCK FALSE
