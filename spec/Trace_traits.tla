----------------------------- MODULE Trace_traits -----------------------------
(* Trace validation of the building blocks: FieldState helpers, take_cf_content, *)
(* the Map trait of serde_json::Map (remove / len / into_iter after a sequence   *)
(* of removals) and the Sequence trait of Vec / arrays.                          *)
EXTENDS DTraits, Json, IOUtils, TLC

Rec == ndJsonDeserialize(IOEnv.TRACE)
VARIABLES l, nviol, viol, okv
xvars == <<l, nviol, viol, okv>>

Double(x) == 2 * x
FsAgrees(e) ==
    LET s == e.state IN
    /\ e.is_missing = IsMissing(s)
    /\ e.unwrap_or = UnwrapOr(s, e.dflt)
    /\ e.ok_or = OkOr(s)
    /\ e.map = FMap(s, Double)
    /\ e.unwrap_panics = UnwrapPanics(s)

\* a map given as members [k, v] (values are positive numbers), a list of removals with their results, then len and enumeration
RECURSIVE ApplyRemovals(_, _, _)
ApplyRemovals(m, ops, i) ==
    IF i > Len(ops) THEN [ok |-> TRUE, m |-> m]
    ELSE LET k == ops[i].k exp == IF k \in DOMAIN m /\ m[k] # 0 THEN [z |-> "some", v |-> m[k]] ELSE [z |-> "none", v |-> 0] IN
         IF ops[i].res # exp THEN [ok |-> FALSE, m |-> m]
         ELSE ApplyRemovals(IF k \in DOMAIN m THEN [m EXCEPT ![k] = 0] ELSE m, ops, i + 1)
MapAgrees(e) ==
    LET ks == {e.members[j].k : j \in 1..Len(e.members)}
        m0 == [k \in ks |-> (CHOOSE j \in 1..Len(e.members) : e.members[j].k = k) ]
        mv == [k \in ks |-> e.members[m0[k]].v]
        r == ApplyRemovals(mv, e.ops, 1)
        left == {k \in ks : r.m[k] # 0}
    IN /\ r.ok
       /\ e.len = Cardinality(left)
       /\ Len(e.iter) = e.len
       /\ {e.iter[j].k : j \in 1..Len(e.iter)} = left
       /\ \A j \in 1..Len(e.iter) : e.iter[j].v = r.m[e.iter[j].k]
       /\ e.is_empty = (left = {})

SeqAgrees(e) == /\ e.len = Len(e.elems) /\ e.iter = e.elems /\ e.is_empty = (Len(e.elems) = 0)
CfAgrees(e) == e.out = e.v

LineAgrees(e) == CASE e.k = "fieldstate" -> FsAgrees(e) [] e.k = "map" -> MapAgrees(e) [] e.k = "seq" -> SeqAgrees(e) [] e.k = "cf" -> CfAgrees(e)

TraceInit == l = 1 /\ nviol = 0 /\ viol = <<>> /\ okv = TRUE /\ members = [k \in Keys |-> 0] /\ nops = 0
TraceNext == /\ l <= Len(Rec) /\ l' = l + 1
             /\ okv' = LineAgrees(Rec[l])
             /\ nviol' = IF okv' THEN nviol ELSE nviol + 1
             /\ viol' = IF ~okv' /\ Len(viol) < 10 THEN Append(viol, l) ELSE viol
             /\ UNCHANGED tvars
TraceSpec == TraceInit /\ [][TraceNext]_<<xvars, tvars>>
Final == l = Len(Rec) + 1
Report == Final => PrintT(<<"RESULT", ToJson([lines |-> Len(Rec), nviol |-> nviol, viol |-> viol])>>)
TraceAccepted == TLCGet("stats").diameter = Len(Rec) + 1
=============================================================================
