------------------------------- MODULE DTraits -------------------------------
(***************************************************************************)
(* The small building blocks the properties lean on but do not name:       *)
(*                                                                         *)
(*  FieldState<T> (src/lib.rs): the three-valued cell the derive keeps per *)
(*    field - Missing / Err / Some(x) - and its helpers is_missing,        *)
(*    unwrap_or, ok_or, map; `unwrap` is total exactly on Some (C08, C12). *)
(*  take_cf_content: the content of a ControlFlow whatever the answer.     *)
(*  Map (src/value.rs, implemented for serde_json::Map): len / remove /    *)
(*    into_iter as a state machine over a set of members: remove(k) yields *)
(*    the member and later enumeration no longer presents it; enumeration  *)
(*    presents every remaining member exactly once (C10 tag removal, C15). *)
(*  Sequence (Vec<T>, [T; N]): len = number of elements enumerated, in     *)
(*    order (C06).                                                         *)
(***************************************************************************)
EXTENDS Naturals, Sequences, FiniteSets

CONSTANTS Keys, Vals, MaxOps

(* ----------------------------- FieldState ------------------------------- *)
FMissing == [z |-> "missing", v |-> 0]
FErr     == [z |-> "err", v |-> 0]
FSome(x) == [z |-> "some", v |-> x]
FStates(V) == {FMissing, FErr} \cup {FSome(x) : x \in V}

IsMissing(s)    == s.z = "missing"
UnwrapOr(s, d)  == IF s.z = "some" THEN s.v ELSE d
OkOr(s)         == IF s.z = "some" THEN [ok |-> TRUE, v |-> s.v] ELSE [ok |-> FALSE, v |-> 0]
FMap(s, f(_))   == IF s.z = "some" THEN FSome(f(s.v)) ELSE s
UnwrapPanics(s) == s.z # "some"
TakeCf(cf)      == cf.v                     \* cf = [brk, v]

(* --------------------------- the Map state machine ---------------------- *)
VARIABLES members,      \* what the map still holds: a function from keys to values (serde_json keeps one value per key)
          nops
tvars == <<members, nops>>

Init == /\ members \in [Keys -> Vals \cup {0}]         \* 0 = absent
        /\ nops = 0
Present(m) == {k \in Keys : m[k] # 0}
MLen(m) == Cardinality(Present(m))
\* remove(k): Some(value) and the member is gone, or None and nothing changes
Remove(k) == /\ nops < MaxOps
             /\ members' = [members EXCEPT ![k] = 0]
             /\ nops' = nops + 1
Next == \E k \in Keys : Remove(k)
Spec == Init /\ [][Next]_tvars

RemoveResult(m, k) == IF m[k] # 0 THEN [z |-> "some", v |-> m[k]] ELSE [z |-> "none", v |-> 0]
\* into_iter presents exactly the remaining members, each once
IterAgrees(m, seq) == /\ Len(seq) = MLen(m)
                      /\ {seq[j].k : j \in 1..Len(seq)} = Present(m)
                      /\ \A j \in 1..Len(seq) : seq[j].v = m[seq[j].k]

LenNeverGrows == [][MLen(members') <= MLen(members)]_tvars
TypeOK == nops <= MaxOps
=============================================================================
