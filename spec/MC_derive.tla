------------------------------ MODULE MC_derive ------------------------------
EXTENDS DDerive, TLC, Json
EmitReplay == Decided => PrintT(<<"REPLAY", ToJson([shape |-> shape, level |-> level, items |-> items, verdict |-> verdict, cause |-> cause])>>)
=============================================================================
