SPECIFICATION Spec
CONSTANTS
  Keys = {"k1", "k2"}
  Idxs = {"0", "1"}
  MaxLen = 8
INVARIANT Refines
INVARIANT TypeOK
INVARIANT EmitReplay
PROPERTY Persistent
CHECK_DEADLOCK FALSE
