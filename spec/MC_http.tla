------------------------------- MODULE MC_http -------------------------------
EXTENDS DHttp, TLC, Json
\* one REPLAY record per (framework, error type, framework outcome class, deserialize outcome class)
EmitReplay == Responded => PrintT(<<"REPLAY", ToJson([fw |-> fw, etype |-> etype, fclass |-> IF fwres.ok THEN "doc" ELSE fwres.body,
                                                       dclass |-> IF ~fwres.ok THEN "none" ELSE IF dres.ok THEN "value" ELSE "error"])>>)
=============================================================================
