SPECIFICATION Spec
INVARIANT OkIffAdmissibleAndInDomain
INVARIANT KindIffInadmissible
INVARIANT KindListsAdmissible
INVARIANT BoundIsViolated
INVARIANT WideAcceptAll
INVARIANT Widening
INVARIANT EmitReplay
CHECK_DEADLOCK FALSE
