---------------------------- MODULE Trace_scalar ----------------------------
(* Trace validation for C05.  Two kinds of lines:                             *)
(*   k = "point": one real deserialize::<Scalar>(value) call with its logged  *)
(*                structured result - must agree with Outcome(ty, v);         *)
(*   k = "range": a run-length encoded stretch of an exhaustive integer sweep *)
(*                - every integer of the stretch must have that outcome.      *)
EXTENDS DScalar, Json, IOUtils, TLC

Rec == ndJsonDeserialize(IOEnv.TRACE)

VARIABLES l, nviol, viol, okv, nok, nkind, ndom
tvars == <<l, nviol, viol, okv, nok, nkind, ndom>>

LineAgrees(e) == IF e.k = "point" THEN ResultAgrees(e.inp.ty, e.inp.v, e.res) ELSE RangeAgrees(e)
ClassCount(e, z) == IF e.k = "point" /\ Outcome(e.inp.ty, e.inp.v).z = z THEN 1 ELSE 0

TraceInit == l = 1 /\ nviol = 0 /\ viol = <<>> /\ okv = TRUE /\ nok = 0 /\ nkind = 0 /\ ndom = 0

TraceNext ==
    /\ l <= Len(Rec)
    /\ l' = l + 1
    /\ LET e == Rec[l] IN
         /\ okv' = LineAgrees(e)                       \* evaluated once
         /\ nok' = nok + ClassCount(e, "ok")
         /\ nkind' = nkind + ClassCount(e, "kind")
         /\ ndom' = ndom + ClassCount(e, "domain")
         /\ nviol' = IF okv' THEN nviol ELSE nviol + 1
         /\ viol'  = IF ~okv' /\ Len(viol) < 10 THEN Append(viol, l) ELSE viol

TraceSpec == TraceInit /\ [][TraceNext]_tvars
Final == l = Len(Rec) + 1
Report == Final => PrintT(<<"RESULT", ToJson([lines |-> Len(Rec), nviol |-> nviol, viol |-> viol, ok |-> nok, kind |-> nkind, domain |-> ndom])>>)
TraceAccepted == TLCGet("stats").diameter = Len(Rec) + 1
=============================================================================
