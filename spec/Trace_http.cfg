SPECIFICATION TraceSpec
INVARIANT Report
POSTCONDITION TraceAccepted
CHECK_DEADLOCK FALSE
