------------------------------ MODULE DPointer ------------------------------
(***************************************************************************)
(* C19 - value pointers.                                                   *)
(*                                                                         *)
(* `chain` is the location as src/value.rs holds it: a linked list of      *)
(* borrowed steps whose head is the LAST step pushed (ValuePointerRef).    *)
(* `path` is the abstract object the property talks about: the sequence of *)
(* steps in the order they were pushed.  PushKey / PushIndex are the two   *)
(* API calls; ToOwned / IsOrigin / FirstField / LastField are defined by   *)
(* recursion on `chain` exactly like the four Rust functions, and the      *)
(* refinement invariant says they compute what the property says about     *)
(* `path`.                                                                 *)
(*                                                                         *)
(* A step is a record [t, k, i] with t \in {"key","idx"}; the unused slot  *)
(* is "" so that all steps have one shape (TLC refuses to compare records  *)
(* with strings).  Indices are decimal strings so that usize::MAX can be   *)
(* carried through the Json module, which silently truncates big numbers.  *)
(***************************************************************************)
EXTENDS Naturals, Sequences

CONSTANTS Keys,     \* set of strings usable as keys in the generative model
          Idxs,     \* set of decimal strings usable as indices
          MaxLen    \* bound on Len(path) for model checking

VARIABLES chain, path

pvars == <<chain, path>>

None    == [z |-> "none", v |-> ""]
Some(s) == [z |-> "some", v |-> s]

KeyStep(k) == [t |-> "key", k |-> k, i |-> ""]
IdxStep(i) == [t |-> "idx", k |-> "", i |-> i]

Origin == [t |-> "origin"]

(* ------------------------- the implementation side --------------------- *)
\* ValuePointerRef::push_key / push_index : allocate a new head that points back
ChainPushKey(c, k) == [t |-> "key", k |-> k, i |-> "", prev |-> c]
ChainPushIdx(c, i) == [t |-> "idx", k |-> "", i |-> i, prev |-> c]

\* is_origin: matches!(self, Origin)
IsOrigin(c) == c.t = "origin"

\* last_field: Origin => None, Key => Some(key), Index => prev.last_field()
RECURSIVE LastField(_)
LastField(c) ==
    CASE c.t = "origin" -> None
      [] c.t = "key"    -> Some(c.k)
      [] c.t = "idx"    -> LastField(c.prev)

\* first_field: Origin => None, Key => prev.first_field().or(Some(key)), Index => prev.first_field()
RECURSIVE FirstField(_)
FirstField(c) ==
    CASE c.t = "origin" -> None
      [] c.t = "key"    -> LET p == FirstField(c.prev) IN IF p.z = "some" THEN p ELSE Some(c.k)
      [] c.t = "idx"    -> FirstField(c.prev)

\* to_owned: walk back pushing components, then reverse
RECURSIVE WalkBack(_)
WalkBack(c) ==
    IF c.t = "origin" THEN <<>>
    ELSE <<[t |-> c.t, k |-> c.k, i |-> c.i]>> \o WalkBack(c.prev)

Rev(s) == [j \in 1..Len(s) |-> s[Len(s) + 1 - j]]
ToOwned(c) == Rev(WalkBack(c))

(* --------------------------- the property side ------------------------- *)
KeyPositions(p) == {j \in 1..Len(p) : p[j].t = "key"}
Min(S) == CHOOSE x \in S : \A y \in S : x <= y
Max(S) == CHOOSE x \in S : \A y \in S : x >= y

AbsFirst(p) == IF KeyPositions(p) = {} THEN None ELSE Some(p[Min(KeyPositions(p))].k)
AbsLast(p)  == IF KeyPositions(p) = {} THEN None ELSE Some(p[Max(KeyPositions(p))].k)

(* ------------------------------- machine ------------------------------- *)
Init == chain = Origin /\ path = <<>>

PushKey(k) == /\ chain' = ChainPushKey(chain, k)
              /\ path'  = Append(path, KeyStep(k))

PushIndex(i) == /\ chain' = ChainPushIdx(chain, i)
                /\ path'  = Append(path, IdxStep(i))

\* Locations live on the call stack of the deserializer: a callee pushes a step onto the location it was given, and when it
\* returns the caller goes on with ITS location, which is the same object as before (the structure is persistent: a push allocates
\* a new head and never touches the chain behind it).  Return is that step; after it a different step may be pushed (a sibling).
Return == /\ Len(path) > 0
          /\ chain' = chain.prev
          /\ path'  = SubSeq(path, 1, Len(path) - 1)

Next == \/ /\ Len(path) < MaxLen
           /\ \/ \E k \in Keys : PushKey(k)
              \/ \E i \in Idxs : PushIndex(i)
        \/ Return

Spec == Init /\ [][Next]_pvars

(* ------------------------------ invariants ----------------------------- *)
Refines ==
    /\ ToOwned(chain)  = path                   \* exactly those steps, in order
    /\ IsOrigin(chain) = (path = <<>>)          \* origin iff nothing was pushed
    /\ FirstField(chain) = AbsFirst(path)       \* first key step, ignoring indices
    /\ LastField(chain)  = AbsLast(path)        \* last key step, ignoring indices

\* persistence, as an action property: a push keeps the old chain, untouched, as `prev` of the new head and the old path as a
\* prefix of the new one; a return hands back exactly that `prev` and that prefix
Persistent == [][\/ (Len(path') = Len(path) + 1 /\ chain'.prev = chain /\ SubSeq(path', 1, Len(path)) = path)
                 \/ (Len(path') + 1 = Len(path) /\ chain.prev = chain' /\ SubSeq(path, 1, Len(path')) = path')]_pvars

TypeOK == /\ \A j \in 1..Len(path) : path[j].t \in {"key", "idx"}
          /\ Len(path) <= MaxLen
=============================================================================
