SPECIFICATION Spec
CONSTANTS
  Keys = {"a", "b", "t"}
  Vals = {1, 2}
  MaxOps = 3
INVARIANT TypeOK
PROPERTY LenNeverGrows
CHECK_DEADLOCK FALSE
