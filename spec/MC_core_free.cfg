SPECIFICATION Spec
CONSTANT Lax = TRUE
CONSTANT Canonical = FALSE
INVARIANT Inv_C01
INVARIANT Inv_C01_local
INVARIANT Inv_C02
INVARIANT Inv_C02_local
INVARIANT Inv_C03
INVARIANT Inv_C04
INVARIANT Inv_C12
INVARIANT Inv_C11
INVARIANT Inv_C11_once
INVARIANT Inv_Value
INVARIANT Inv_C15
INVARIANT Inv_OkIffNoFaults
CHECK_DEADLOCK TRUE
