SPECIFICATION TraceSpec
CONSTANTS
  Keys = {}
  Vals = {}
  MaxOps = 0
INVARIANT Report
POSTCONDITION TraceAccepted
CHECK_DEADLOCK FALSE
