---------------------------- MODULE Trace_pointer ----------------------------
(* Trace validation for C19: replays the recorded push_key / push_index calls *)
(* of the real ValuePointerRef on the DPointer machine and compares the four  *)
(* logged observations with the specification after every step.  A `reset`    *)
(* event starts a new path from the origin; a `pop` event is the return of   *)
(* the callee that pushed the last step (the caller's location is observed    *)
(* again), so that a run is a walk over a tree of locations.  Monitor style: every line is     *)
(* consumed, mismatching lines are collected in `viol`.                       *)
EXTENDS DPointer, Json, IOUtils, TLC

Rec == ndJsonDeserialize(IOEnv.TRACE)

VARIABLES l, nviol, viol, npush, npop
tvars == <<chain, path, l, nviol, viol, npush, npop>>

ObsAgrees(e, c, p) ==
    /\ e.owned  = p                 \* to_owned lists exactly the pushed steps, in order
    /\ e.origin = (p = <<>>)        \* is_origin iff nothing was pushed
    /\ e.first  = AbsFirst(p)
    /\ e.last   = AbsLast(p)
    \* and the implementation-shaped definitions agree too (Refines, restated on the trace)
    /\ e.owned  = ToOwned(c)
    /\ e.first  = FirstField(c)
    /\ e.last   = LastField(c)

TraceInit == /\ Init /\ l = 1 /\ nviol = 0 /\ viol = <<>> /\ npush = 0 /\ npop = 0

Record(bad) == /\ nviol' = IF bad THEN nviol + 1 ELSE nviol
               /\ viol'  = IF bad /\ Len(viol) < 10 THEN Append(viol, l) ELSE viol

TraceNext ==
    /\ l <= Len(Rec)
    /\ l' = l + 1
    /\ LET e == Rec[l] IN
         \/ /\ e.e = "reset"
            /\ chain' = Origin /\ path' = <<>>
            /\ npush' = npush /\ npop' = npop
            /\ Record(~ObsAgrees(e, chain', path'))
         \/ /\ e.e = "push"
            /\ IF e.step.t = "key" THEN PushKey(e.step.k) ELSE PushIndex(e.step.i)
            /\ npush' = npush + 1 /\ npop' = npop
            /\ Record(~ObsAgrees(e, chain', path'))
         \* the callee returned: the caller's location is observed again and must be what it was before the push,
         \* whatever was pushed (and observed) beyond it in the meantime
         \/ /\ e.e = "pop"
            /\ IF Len(path) > 0 THEN Return ELSE UNCHANGED <<chain, path>>
            /\ npush' = npush /\ npop' = npop + 1
            /\ Record(Len(path) = 0 \/ ~ObsAgrees(e, chain', path'))

TraceSpec == TraceInit /\ [][TraceNext]_tvars

Final == l = Len(Rec) + 1
Report == Final => PrintT(<<"RESULT", ToJson([lines |-> Len(Rec), nviol |-> nviol, viol |-> viol, pushes |-> npush, pops |-> npop])>>)
TraceAccepted == TLCGet("stats").diameter = Len(Rec) + 1
=============================================================================
