------------------------------- MODULE DBridge -------------------------------
(***************************************************************************)
(* C13 - the serde_json bridge.                                            *)
(*                                                                         *)
(* One record shape [t, b, h, sg, d, s, n, e] serves for                   *)
(*  - JSON documents as serde_json holds them: t \in null|bool|num|str|seq| *)
(*    map, numbers carry h \in u64|i64|f64 (PosInt / NegInt / Float of     *)
(*    serde_json::Number), digits sg,d for integers, s = IEEE bits (hex)   *)
(*    for floats; e = elements, or members [k, v] in serde_json's order;   *)
(*  - deserr Values (the consumed view): t \in null|bool|int|neg|float|str| *)
(*    seq|map, h = "".                                                     *)
(* ViewOf transcribes IntoValue::into_value (as_u64 -> as_i64 -> as_f64),  *)
(* KindChain transcribes IntoValue::kind (is_u64 -> is_i64 -> is_f64),     *)
(* BackOf transcribes From<Value<V>> for serde_json::Value, DeserOf the    *)
(* Deserr impl for serde_json::Value.  LitHolds is how serde_json holds a  *)
(* number literal (the classification rule of the property).               *)
(***************************************************************************)
EXTENDS DDigits, FiniteSets

R(t, b, h, sg, d, s, n, e) == [t |-> t, b |-> b, h |-> h, sg |-> sg, d |-> d, s |-> s, n |-> n, e |-> e]

JNull       == R("null", FALSE, "", 0, DZero, "", 0, <<>>)
JBool(b)    == R("bool", b, "", 0, DZero, "", 0, <<>>)
JPos(d)     == R("num", FALSE, "u64", IF d = DZero THEN 0 ELSE 1, d, "", 0, <<>>)
JNegI(d)    == R("num", FALSE, "i64", -1, d, "", 0, <<>>)
JFloat(s)   == R("num", FALSE, "f64", 0, DZero, s, 0, <<>>)
JStr(s, n)  == R("str", FALSE, "", 0, DZero, s, n, <<>>)
JArr(es)    == R("seq", FALSE, "", 0, DZero, "", Len(es), es)
JObj(ms)    == R("map", FALSE, "", 0, DZero, "", Len(ms), ms)

VInt(d)     == R("int", FALSE, "", IF d = DZero THEN 0 ELSE 1, d, "", 0, <<>>)
VNeg(sg, d) == R("neg", FALSE, "", sg, d, "", 0, <<>>)
VFloat(s)   == R("float", FALSE, "", 0, DZero, s, 0, <<>>)

U64Max == DDec(DPow2(64))
I64MinAbs == DPow2(63)

(* ----- how serde_json holds a number literal: the classification rule ---- *)
\* lit = [neg, d, fe]: sign, integer digits, "has a fraction or an exponent"
LitHolds(lit) ==
    IF lit.fe THEN "f64"
    ELSE IF ~lit.neg THEN (IF DLeq(lit.d, U64Max) THEN "u64" ELSE "f64")
    ELSE IF lit.d = DZero THEN "f64"                       \* "-0" is the float -0.0
    ELSE IF DLeq(lit.d, I64MinAbs) THEN "i64" ELSE "f64"

(* ------------- the two chains of src/serde_json.rs, transcribed --------- *)
\* serde_json's own predicates on a held number
IsU64(x) == x.h = "u64"
IsI64(x) == x.h = "i64" \/ (x.h = "u64" /\ DLt(x.d, I64MinAbs))
IsF64(x) == x.h = "f64"

KindChain(x) ==  \* IntoValue::kind
    CASE x.t = "null" -> "Null" [] x.t = "bool" -> "Boolean" [] x.t = "str" -> "String"
      [] x.t = "seq" -> "Sequence" [] x.t = "map" -> "Map"
      [] x.t = "num" -> IF IsU64(x) THEN "Integer" ELSE IF IsI64(x) THEN "NegativeInteger" ELSE IF IsF64(x) THEN "Float" ELSE "PANIC"

KindOfValue(v) ==  \* Value::kind
    CASE v.t = "null" -> "Null" [] v.t = "bool" -> "Boolean" [] v.t = "int" -> "Integer" [] v.t = "neg" -> "NegativeInteger"
      [] v.t = "float" -> "Float" [] v.t = "str" -> "String" [] v.t = "seq" -> "Sequence" [] v.t = "map" -> "Map"

RECURSIVE ViewOf(_)   \* IntoValue::into_value, applied recursively by whoever walks the value
ViewOf(x) ==
    CASE x.t = "num" -> IF IsU64(x) THEN VInt(x.d)                      \* as_u64
                        ELSE IF IsI64(x) THEN VNeg(x.sg, x.d)            \* as_i64
                        ELSE VFloat(x.s)                                 \* as_f64
      [] x.t = "seq" -> [x EXCEPT !.e = [j \in 1..Len(x.e) |-> ViewOf(x.e[j])]]
      [] x.t = "map" -> [x EXCEPT !.e = [j \in 1..Len(x.e) |-> [k |-> x.e[j].k, v |-> ViewOf(x.e[j].v)]]]
      [] OTHER -> x

\* a float the JSON data model can hold (serde_json::Number::from_f64 succeeds): exponent bits not all ones
FiniteBits(s) == ~(s \in {"7ff0000000000000", "fff0000000000000"}) /\ SubSeq(s, 1, 3) \notin {"7ff", "fff"}

RECURSIVE BackOf(_)   \* From<Value<V>> for serde_json::Value
BackOf(v) ==
    CASE v.t = "int"   -> JPos(v.d)                                               \* Number::from(u64)
      [] v.t = "neg"   -> IF v.sg >= 0 THEN JPos(v.d) ELSE JNegI(v.d)              \* Number::from(i64)
      [] v.t = "float" -> IF FiniteBits(v.s) THEN JFloat(v.s) ELSE JNull          \* from_f64 or null
      [] v.t = "seq"   -> [v EXCEPT !.e = [j \in 1..Len(v.e) |-> BackOf(v.e[j])]]
      [] v.t = "map"   -> [v EXCEPT !.e = [j \in 1..Len(v.e) |-> [k |-> v.e[j].k, v |-> BackOf(v.e[j].v)]]]
      [] OTHER -> v

\* Deserr for serde_json::Value: same mapping, but a non-representable float is an error
RECURSIVE DeserFails(_)
DeserFails(v) ==
    CASE v.t = "float" -> ~FiniteBits(v.s)
      [] v.t = "seq"   -> \E j \in 1..Len(v.e) : DeserFails(v.e[j])
      [] v.t = "map"   -> \E j \in 1..Len(v.e) : DeserFails(v.e[j].v)
      [] OTHER -> FALSE

(* --------------------- what the property says about a doc --------------- *)
RECURSIVE KindsAgreeEverywhere(_)
KindsAgreeEverywhere(x) ==
    /\ KindChain(x) = KindOfValue(ViewOf(x))
    /\ CASE x.t = "seq" -> \A j \in 1..Len(x.e) : KindsAgreeEverywhere(x.e[j])
         [] x.t = "map" -> \A j \in 1..Len(x.e) : KindsAgreeEverywhere(x.e[j].v)
         [] OTHER -> TRUE

RoundTrips(x) == BackOf(ViewOf(x)) = x /\ ~DeserFails(ViewOf(x))

\* numbers are classified by how serde_json holds them
ClassOfHeld(x) == CASE x.h = "u64" -> "Integer" [] x.h = "i64" -> "NegativeInteger" [] x.h = "f64" -> "Float"
=============================================================================
