------------------------------ MODULE MC_kinds ------------------------------
EXTENDS DKinds, TLC, Json
EmitReplay == PrintT(<<"REPLAY", ToJson([kinds |-> kinds])>>)
=============================================================================
