---------------------------- MODULE Trace_derive ----------------------------
(* Trace validation for C16: one line per derive input that was rendered to a  *)
(* Rust item and compiled against the working tree, with the diagnostics that  *)
(* fall inside the item (issued by the derive: no error code; by rustc: coded). *)
EXTENDS DDerive, Json, IOUtils, TLC

Rec == ndJsonDeserialize(IOEnv.TRACE)

VARIABLES l, nviol, viol, okv, nrej
tvars == <<l, nviol, viol, okv, nrej>>

Panicked(msgs) == \E j \in 1..Len(msgs) : \E i \in 1..Len(msgs[j]) : i + 7 <= Len(msgs[j]) /\ SubSeq(msgs[j], i, i + 7) = "panicked"

LineAgrees(e) ==
    LET o == Outcome(e.inp.shape, e.inp.level, e.inp.items)
        poisoned == Poisoned(e.inp.shape, e.inp.level, e.inp.items)
    IN /\ (o.verdict = "reject") <=> poisoned                       \* the parser model and the property agree on this input
       /\ ~Panicked(e.obs.derive_errors)                            \* it never panics
       /\ IF poisoned
          THEN Len(e.obs.derive_errors) >= 1                         \* a diagnostic issued by the derive
          \* an input the property does not list: the generated impl compiles - or the derive refuses it as well, with a diagnostic of
          \* its own (the property names what MUST be refused, it does not promise that everything else is accepted)
          ELSE (Len(e.obs.derive_errors) = 0 /\ Len(e.obs.rustc_errors) = 0) \/ Len(e.obs.derive_errors) >= 1

TraceInit == l = 1 /\ nviol = 0 /\ viol = <<>> /\ okv = TRUE /\ nrej = 0
\* the DDerive machine variables are not used by the validation (the functional form is)
MInit == shape = "struct_named" /\ level = "container" /\ items = <<>> /\ queue = <<>> /\ pos = 0 /\ slots = {} /\ flags = {} /\ verdict = "writing" /\ cause = "" /\ wrote = <<>>

TraceNext ==
    /\ l <= Len(Rec)
    /\ l' = l + 1
    /\ LET e == Rec[l] IN
         /\ okv' = LineAgrees(e)
         /\ nrej' = nrej + (IF Len(e.obs.derive_errors) >= 1 THEN 1 ELSE 0)
         /\ nviol' = IF okv' THEN nviol ELSE nviol + 1
         /\ viol'  = IF ~okv' /\ Len(viol) < 10 THEN Append(viol, l) ELSE viol
    /\ UNCHANGED dvars

TraceSpec == TraceInit /\ MInit /\ [][TraceNext]_<<tvars, dvars>>
Final == l = Len(Rec) + 1
Report == Final => PrintT(<<"RESULT", ToJson([lines |-> Len(Rec), nviol |-> nviol, viol |-> viol, rejected |-> nrej])>>)
TraceAccepted == TLCGet("stats").diameter = Len(Rec) + 1
=============================================================================
