SPECIFICATION Spec
CONSTANT Lax = FALSE
CONSTANT Canonical = TRUE
INVARIANT Inv_C01
INVARIANT Inv_C02
INVARIANT Inv_C03
INVARIANT Inv_C03_first
INVARIANT Inv_C04
INVARIANT Inv_C12
INVARIANT Inv_C11
INVARIANT Inv_C11_once
INVARIANT Inv_C15
INVARIANT EmitReplay
CHECK_DEADLOCK TRUE
