------------------------------ MODULE MC_scalar ------------------------------
(* Enumerates the boundary universe of C05 (30 targets x every value kind x     *)
(* the numbers 0, 2^k-1, 2^k, 2^k+1 for k <= 64 in both integer forms) and      *)
(* checks design-level facts about Outcome that are worded independently of it. *)
EXTENDS DScalar, TLC, Json

VARIABLES ty, v
svars == <<ty, v>>

V(t, b, sg, d, s, n) == [t |-> t, b |-> b, sg |-> sg, d |-> d, s |-> s, n |-> n]

NumSet == {DZero} \cup UNION {{DDec(DPow2(k)), DPow2(k), DInc(DPow2(k))} : k \in 0..64}
U64Max == DDec(DPow2(64))
I64MaxP1 == DPow2(63)

IntPoints == {V("int", FALSE, IF d = DZero THEN 0 ELSE 1, d, "", 0) : d \in {x \in NumSet : DLeq(x, U64Max)}}
NegPoints == {V("neg", FALSE, IF d = DZero THEN 0 ELSE -1, d, "", 0) : d \in {x \in NumSet : DLeq(x, I64MaxP1)}}
\* a value source other than serde_json may put a non-negative number into NegativeInteger
NegNonNegPoints == {V("neg", FALSE, IF d = DZero THEN 0 ELSE 1, d, "", 0) : d \in {x \in NumSet : DLt(x, I64MaxP1)}}
OtherPoints == {V("null", FALSE, 0, DZero, "", 0), V("bool", TRUE, 0, DZero, "", 0), V("bool", FALSE, 0, DZero, "", 0),
                V("float", FALSE, 0, DZero, "1.5", 0), V("float", FALSE, 0, DZero, "-0.0", 0), V("float", FALSE, 0, DZero, "1e300", 0),
                V("str", FALSE, 0, DZero, "", 0), V("str", FALSE, 0, DZero, "a", 1), V("str", FALSE, 0, DZero, "é", 1),
                V("str", FALSE, 0, DZero, "ab", 2), V("str", FALSE, 0, DZero, "a€c", 3), V("str", FALSE, 0, DZero, "12", 2),
                V("seq", FALSE, 0, DZero, "", 0), V("seq", FALSE, 0, DZero, "", 2), V("map", FALSE, 0, DZero, "", 0), V("map", FALSE, 0, DZero, "", 1)}
Points == IntPoints \cup NegPoints \cup NegNonNegPoints \cup OtherPoints

Init == ty \in Targets /\ v \in Points
Next == UNCHANGED svars
Spec == Init /\ [][Next]_svars

(* independent wording of "in the domain" *)
InDomain(t, x) ==
    CASE IsIntTarget(t) -> /\ SLeq(MinOf(t), NumOf(x)) /\ SLeq(NumOf(x), MaxOf(t))
                           /\ (NonZero(t) => NumOf(x) # SZero)
      [] Cls(t) = "char" -> x.n = 1
      [] OTHER -> TRUE

OkIffAdmissibleAndInDomain ==
    (Outcome(ty, v).z = "ok") <=> (KindName(v) \in Admissible(ty) /\ InDomain(ty, v))
KindIffInadmissible ==
    (Outcome(ty, v).z = "kind") <=> (KindName(v) \notin Admissible(ty))
KindListsAdmissible == Outcome(ty, v).z = "kind" => Outcome(ty, v).acc = Admissible(ty) /\ KindName(v) \notin Outcome(ty, v).acc
\* the violated bound really is violated, and it is a bound of the target
BoundIsViolated ==
    LET o == Outcome(ty, v) IN
    /\ (o.z = "domain" /\ o.which = "max" => o.bound = MaxOf(ty) /\ SLt(o.bound, NumOf(v)))
    /\ (o.z = "domain" /\ o.which = "min" => o.bound = MinOf(ty) /\ SLt(NumOf(v), o.bound))
    /\ (o.z = "domain" /\ o.which = "zero" => NonZero(ty) /\ NumOf(v) = SZero)
\* a Value can carry only u64 / i64, so 128-bit targets never see an out-of-range number
WideAcceptAll == Bits(ty) = 128 /\ IsIntTarget(ty) /\ KindName(v) \in Admissible(ty) =>
                    Outcome(ty, v).z \in {"ok"} \/ (NonZero(ty) /\ NumOf(v) = SZero)
\* widening never loses a value
Wider(t) == CASE Bits(t) = 8 -> 16 [] Bits(t) = 16 -> 32 [] Bits(t) = 32 -> 64 [] Bits(t) = 64 -> 128 [] OTHER -> 128
Widening == IsIntTarget(ty) /\ Outcome(ty, v).z = "ok" =>
              \A t2 \in Targets : (IsIntTarget(t2) /\ Cls(t2) = Cls(ty) /\ Bits(t2) = Wider(ty)) => Outcome(t2, v).z = "ok"

EmitReplay == PrintT(<<"REPLAY", ToJson([ty |-> ty, v |-> v])>>)
=============================================================================
