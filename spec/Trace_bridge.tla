---------------------------- MODULE Trace_bridge ----------------------------
(* Trace validation for C13: one line per JSON document with                  *)
(*  held      - the document as serde_json holds it (serde_json API only)     *)
(*  nodes     - per sub-document: literal, serde_json's is_* answers, deserr's *)
(*              kind() and the kind of the consumed view                      *)
(*  view      - the deserr Value obtained by walking into_value recursively   *)
(*  back_from - serde_json::Value::from(view)                                 *)
(*  deser     - deserr::deserialize::<serde_json::Value, _, E>(document)      *)
EXTENDS DBridge, Json, IOUtils, TLC

Rec == ndJsonDeserialize(IOEnv.TRACE)

VARIABLES l, nviol, viol, okv, nnum
tvars == <<l, nviol, viol, okv, nnum>>

KindByTag(t) == CASE t = "null" -> "Null" [] t = "bool" -> "Boolean" [] t = "str" -> "String" [] t = "seq" -> "Sequence" [] t = "map" -> "Map"

NodeAgrees(n) ==
    /\ n.kind = n.vkind                                   \* kind without consuming = kind of the consumed view
    /\ IF n.t = "num"
       THEN LET x == [h |-> n.h, d |-> n.d] IN
            /\ n.h = LitHolds(n.lit)                      \* held as the classification rule says
            /\ n.kind = ClassOfHeld(x)                    \* and classified by how it is held
            /\ n.u = IsU64(x) /\ n.i = IsI64(x) /\ n.f = IsF64(x)   \* the model of serde_json's predicates is faithful
       ELSE n.kind = KindByTag(n.t)

LineAgrees(e) ==
    \/ ~e.parsed                                          \* serde_json itself refused the text: not a document
    \/ /\ \A j \in 1..Len(e.nodes) : NodeAgrees(e.nodes[j])
       /\ KindsAgreeEverywhere(e.held)
       /\ e.view = ViewOf(e.held)
       /\ e.back_from = e.held                            \* From<Value<V>> is lossless
       /\ e.deser.ok /\ e.deser.nerr = 0 /\ e.deser.doc = e.held   \* Deserr for serde_json::Value never fails, same document

TraceInit == l = 1 /\ nviol = 0 /\ viol = <<>> /\ okv = TRUE /\ nnum = 0

TraceNext ==
    /\ l <= Len(Rec)
    /\ l' = l + 1
    /\ LET e == Rec[l] IN
         /\ okv' = LineAgrees(e)
         /\ nnum' = nnum + Cardinality({j \in 1..Len(e.nodes) : e.nodes[j].t = "num"})
         /\ nviol' = IF okv' THEN nviol ELSE nviol + 1
         /\ viol'  = IF ~okv' /\ Len(viol) < 10 THEN Append(viol, l) ELSE viol

TraceSpec == TraceInit /\ [][TraceNext]_tvars
Final == l = Len(Rec) + 1
Report == Final => PrintT(<<"RESULT", ToJson([lines |-> Len(Rec), nviol |-> nviol, viol |-> viol, numbers |-> nnum])>>)
TraceAccepted == TLCGet("stats").diameter = Len(Rec) + 1
=============================================================================
