---------------------------- MODULE DDidYouMean ----------------------------
(***************************************************************************)
(* C18 - did_you_mean.                                                     *)
(*                                                                         *)
(* Strings are sequences of Unicode scalar values (naturals): the budget   *)
(* is a function of the UTF-8 BYTE length of the received string, the      *)
(* distance counts scalar values.                                          *)
(*                                                                         *)
(* DistDP is the Lowrance-Wagner dynamic programme for the unrestricted    *)
(* Damerau-Levenshtein distance (what strsim::damerau_levenshtein          *)
(* implements).  It is tied to the DEFINITION of that distance - the       *)
(* length of a shortest path in the graph whose edges are the four edit    *)
(* operations insert / delete / substitute / transpose two adjacent        *)
(* symbols - by three invariants checked by TLC on every pair (r, t) of a  *)
(* bounded universe closed under those operations:                         *)
(*    Zero      DistDP(r,t) = 0  <=>  r = t                                 *)
(*    Lipschitz one edit of t changes DistDP(r, .) by at most 1             *)
(*    Descent   t # r  =>  some edit of t lowers DistDP(r, .) by exactly 1  *)
(* Zero+Lipschitz give DistDP <= graph distance, Zero+Descent give >=.      *)
(***************************************************************************)
EXTENDS Naturals, Sequences, FiniteSets

CONSTANTS Alphabet,   \* set of scalar values for the generative model
          MaxLen      \* bound on string length for the generative model

VARIABLES r, t        \* received string, one candidate
dvars == <<r, t>>

Utf8Len(c) == IF c < 128 THEN 1 ELSE IF c < 2048 THEN 2 ELSE IF c < 65536 THEN 3 ELSE 4
RECURSIVE ByteLen(_)
ByteLen(s) == IF s = <<>> THEN 0 ELSE Utf8Len(Head(s)) + ByteLen(Tail(s))

\* typo budget by byte length; 0 stands for "no suggestion at all" (<= 3 bytes)
Budget(n) == IF n <= 3 THEN 0 ELSE IF n <= 7 THEN 1 ELSE IF n <= 12 THEN 2 ELSE IF n <= 17 THEN 3 ELSE IF n <= 24 THEN 4 ELSE 5

Min2(a, b) == IF a <= b THEN a ELSE b
MinSet(S) == CHOOSE x \in S : \A y \in S : x <= y
MaxSet(S) == CHOOSE x \in S : \A y \in S : x >= y

(* ------------------- Lowrance-Wagner dynamic programme ------------------ *)
\* rows 0..Len(a), columns 0..Len(b); table is a sequence of rows, row i at index i+1,
\* a row is a sequence of cells, cell j at index j+1.
Cell(table, i, j) == table[i + 1][j + 1]

\* last row k < i with a[k] = c, 0 if none (the `elems` hash map of strsim)
LastRow(a, i, c) == LET S == {k \in 1..(i - 1) : a[k] = c} IN IF S = {} THEN 0 ELSE MaxSet(S)

RECURSIVE BuildRow(_, _, _, _, _, _, _)
\* computes cells j..Len(b) of row i; `row` holds cells 0..j-1, db = last column < j with b[db] = a[i]
BuildRow(a, b, table, i, j, db, row) ==
    IF j > Len(b) THEN row
    ELSE LET k    == LastRow(a, i, b[j])
             same == a[i] = b[j]
             sub  == Cell(table, i - 1, j - 1) + (IF same THEN 0 ELSE 1)
             ins  == row[j] + 1                                \* cell (i, j-1)
             del  == Cell(table, i - 1, j) + 1
             base == Min2(sub, Min2(ins, del))
             val  == IF k > 0 /\ db > 0
                     THEN Min2(base, Cell(table, k - 1, db - 1) + (i - k - 1) + 1 + (j - db - 1))
                     ELSE base
         IN BuildRow(a, b, table, i, j + 1, IF same THEN j ELSE db, Append(row, val))

RECURSIVE BuildTable(_, _, _, _)
BuildTable(a, b, table, i) ==
    IF i > Len(a) THEN table
    ELSE BuildTable(a, b, Append(table, BuildRow(a, b, table, i, 1, 0, <<i>>)), i + 1)

DistDP(a, b) ==
    IF a = <<>> THEN Len(b) ELSE IF b = <<>> THEN Len(a)
    ELSE LET row0 == [j \in 1..(Len(b) + 1) |-> j - 1]
             tb   == BuildTable(a, b, <<row0>>, 1)
         IN Cell(tb, Len(a), Len(b))

(* -------------------------- the edit graph ------------------------------ *)
RemoveAt(s, i)     == SubSeq(s, 1, i - 1) \o SubSeq(s, i + 1, Len(s))
InsertAt(s, i, c)  == SubSeq(s, 1, i - 1) \o <<c>> \o SubSeq(s, i, Len(s))    \* c becomes element i
ReplaceAt(s, i, c) == [s EXCEPT ![i] = c]
SwapAt(s, i)       == [s EXCEPT ![i] = s[i + 1], ![i + 1] = s[i]]

Neighbours(s, A) ==
       {RemoveAt(s, i) : i \in 1..Len(s)}
  \cup {InsertAt(s, i, c) : i \in 1..(Len(s) + 1), c \in A}
  \cup {ReplaceAt(s, i, c) : i \in 1..Len(s), c \in A}
  \cup {SwapAt(s, i) : i \in 1..(Len(s) - 1)}

(* ------------------------------ the function ---------------------------- *)
\* index (1-based) of the suggested candidate in `acc`, 0 for "no suggestion"
Suggest(recv, acc) ==
    LET B  == Budget(ByteLen(recv))
        ds == [j \in 1..Len(acc) |-> DistDP(recv, acc[j])]
        ok == {j \in 1..Len(acc) : ds[j] <= B}
    IN IF B = 0 \/ ok = {} THEN 0
       ELSE LET m == MinSet({ds[j] : j \in ok})
            IN MinSet({j \in ok : ds[j] = m})            \* the earliest minimal one

(* ------------------------------- machine -------------------------------- *)
\* the accepted strings within the budget of the received one (C14 only asks that a suggestion names one of these)
Close(recv, acc) == {j \in 1..Len(acc) : DistDP(recv, acc[j]) <= Budget(ByteLen(recv))}

Init == r = <<>> /\ t = <<>>
GrowR(c) == Len(r) < MaxLen /\ t = <<>> /\ r' = Append(r, c) /\ t' = t    \* r first, then t: every pair once
GrowT(c) == Len(t) < MaxLen /\ t' = Append(t, c) /\ r' = r
Next == \E c \in Alphabet : GrowR(c) \/ GrowT(c)
Spec == Init /\ [][Next]_dvars

(* ------------------------------ invariants ------------------------------ *)
Zero == (DistDP(r, t) = 0) <=> (r = t)
Symmetric == DistDP(r, t) = DistDP(t, r)
Lipschitz == \A n \in Neighbours(t, Alphabet) :
                LET d == DistDP(r, t) e == DistDP(r, n) IN e <= d + 1 /\ d <= e + 1
Descent == t # r => \E n \in Neighbours(t, Alphabet) : Len(n) <= MaxLen /\ DistDP(r, n) + 1 = DistDP(r, t)

\* the structural facts of the property, for single candidates and for pairs of candidates (t and its reverse)
RevSeq(s) == [j \in 1..Len(s) |-> s[Len(s) + 1 - j]]
Structural ==
    LET acc2 == <<t, RevSeq(t)>>
        j1 == Suggest(r, <<t>>)
        j2 == Suggest(r, acc2)
    IN /\ j1 \in {0, 1}
       /\ (ByteLen(r) <= 3 => j1 = 0 /\ j2 = 0)
       /\ (j1 = 1 <=> (ByteLen(r) > 3 /\ DistDP(r, t) <= Budget(ByteLen(r))))
       /\ j2 \in {0, 1, 2}
       /\ (j2 # 0 => /\ DistDP(r, acc2[j2]) <= Budget(ByteLen(r))
                     /\ \A j \in 1..2 : DistDP(r, acc2[j]) >= DistDP(r, acc2[j2])
                     /\ \A j \in 1..(j2 - 1) : DistDP(r, acc2[j]) > DistDP(r, acc2[j2]))
       /\ (j2 = 0 => \A j \in 1..2 : DistDP(r, acc2[j]) > Budget(ByteLen(r)) \/ ByteLen(r) <= 3)
=============================================================================
