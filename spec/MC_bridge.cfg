SPECIFICATION Spec
INVARIANT KindInv
INVARIANT RoundTripInv
INVARIANT NoPanicKind
INVARIANT EmitReplay
CHECK_DEADLOCK FALSE
