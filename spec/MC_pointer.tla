----------------------------- MODULE MC_pointer -----------------------------
(* Exhaustive exploration of DPointer for all paths of <= MaxLen steps, and  *)
(* emission of one REPLAY record per reachable path (spec -> impl).          *)
EXTENDS DPointer, TLC, Json

EmitReplay == PrintT(<<"REPLAY", ToJson([path |-> path])>>)
=============================================================================
