// The generated catalogue (Rust items for the catalogue's derived types + dispatcher) is compiled from the file named by
// DH_GEN_CAT when set (thorough tier: base catalogue + seeded random derive inputs), else from the committed src/gen_cat.rs.
use std::{env, fs, path::PathBuf};

fn main() {
    let default = PathBuf::from(env::var("CARGO_MANIFEST_DIR").unwrap()).join("src").join("gen_cat.rs");
    let src = env::var("DH_GEN_CAT").map(PathBuf::from).unwrap_or(default);
    println!("cargo:rerun-if-env-changed=DH_GEN_CAT");
    println!("cargo:rerun-if-changed={}", src.display());
    let out = PathBuf::from(env::var("OUT_DIR").unwrap()).join("gen_cat.rs");
    fs::copy(&src, &out).unwrap_or_else(|e| panic!("cannot copy {}: {e}", src.display()));
}
