//! `OV`: a second, order-preserving value source.  Maps are lists of members in the GIVEN order,
//! duplicate keys allowed; `Neg` may hold any i64 (also non-negative); floats may be non-finite.
use deserr::{IntoValue, Map, Value, ValueKind};
use serde_json::{json, Value as J};

#[derive(Clone, Debug, PartialEq)]
pub enum OV {
    Null,
    Bool(bool),
    Int(u64),
    Neg(i64),
    Float(f64),
    Str(String),
    Seq(Vec<OV>),
    Map(Vec<(String, OV)>),
    /// a value that must never be looked at: converting it panics (used as the value of members that have to be ignored)
    Poison,
}

pub struct OVMap(pub Vec<(String, OV)>);

impl Map for OVMap {
    type Value = OV;
    type Iter = std::vec::IntoIter<(String, OV)>;
    fn len(&self) -> usize {
        self.0.len()
    }
    fn remove(&mut self, key: &str) -> Option<OV> {
        let pos = self.0.iter().position(|(k, _)| k == key)?;
        Some(self.0.remove(pos).1)
    }
    fn into_iter(self) -> Self::Iter {
        self.0.into_iter()
    }
}

pub const POISON_MARK: &str = "\u{1}poison\u{1}";
thread_local! {
    /// set by the harness while it encodes a value it was handed inside a report (never while deserr runs)
    pub static ENCODING: std::cell::Cell<bool> = const { std::cell::Cell::new(false) };
}

impl IntoValue for OV {
    type Sequence = Vec<OV>;
    type Map = OVMap;
    fn kind(&self) -> ValueKind {
        match self {
            OV::Null => ValueKind::Null,
            OV::Bool(_) => ValueKind::Boolean,
            OV::Int(_) => ValueKind::Integer,
            OV::Neg(_) => ValueKind::NegativeInteger,
            OV::Float(_) => ValueKind::Float,
            OV::Str(_) => ValueKind::String,
            OV::Seq(_) => ValueKind::Sequence,
            OV::Map(_) => ValueKind::Map,
            OV::Poison => ValueKind::Null,
        }
    }
    fn into_value(self) -> Value<Self> {
        match self {
            // while the harness itself encodes the `actual` value of a report, a poisoned member is only named, not judged
            OV::Poison if ENCODING.with(|c| c.get()) => Value::String(POISON_MARK.to_string()),
            OV::Poison => panic!("the value of an ignored member was converted"),
            OV::Null => Value::Null,
            OV::Bool(b) => Value::Boolean(b),
            OV::Int(x) => Value::Integer(x),
            OV::Neg(x) => Value::NegativeInteger(x),
            OV::Float(x) => Value::Float(x),
            OV::Str(s) => Value::String(s),
            OV::Seq(s) => Value::Sequence(s),
            OV::Map(m) => Value::Map(OVMap(m)),
        }
    }
}

/// digits (most significant first) of a decimal string without sign
pub fn digits_of(s: &str) -> Vec<u8> {
    s.bytes().filter(|b| b.is_ascii_digit()).map(|b| b - b'0').collect()
}

/// signed-digits record {sg, d} of an integer given as decimal text (optional leading '-')
pub fn signed_j(text: &str) -> J {
    let neg = text.starts_with('-');
    let d = digits_of(text);
    let zero = d.iter().all(|x| *x == 0);
    let d = if zero { vec![0] } else { d.into_iter().skip_while(|x| *x == 0).collect() };
    json!({"sg": if zero { 0 } else if neg { -1 } else { 1 }, "d": d})
}

/// The uniform scalar value record [t, b, sg, d, s, n] used by DScalar / DValues.
pub fn scalar_rec(t: &str, b: bool, sg: i64, d: Vec<u8>, s: &str, n: usize) -> J {
    json!({"t": t, "b": b, "sg": sg, "d": d, "s": s, "n": n})
}
