//! C19: drive the real ValuePointerRef with given / random paths and log what the four
//! observation functions return after every push.
use crate::util::{opt_s, Out, Rng};
use deserr::{ValuePointer, ValuePointerRef};
use serde_json::{json, Value as J};

#[derive(Clone, Debug)]
pub enum Step {
    Key(String),
    Idx(usize),
}

fn step_j(s: &Step) -> J {
    match s {
        Step::Key(k) => json!({"t": "key", "k": k, "i": ""}),
        Step::Idx(i) => json!({"t": "idx", "k": "", "i": i.to_string()}),
    }
}

/// Render an owned pointer through its Debug output?  No: ValuePointer.path is public but the
/// component type is not exported, so we go through Debug of each component, which is derived.
fn owned_j(p: &ValuePointer) -> J {
    let mut v = Vec::new();
    for c in &p.path {
        let d = format!("{:?}", c);
        // derived Debug: Key("..") / Index(n)
        if let Some(rest) = d.strip_prefix("Index(") {
            v.push(json!({"t": "idx", "k": "", "i": rest.trim_end_matches(')')}));
        } else if d.starts_with("Key(") {
            // undo the Debug quoting of the string through serde_json-compatible parsing of Rust's escape
            let inner = &d[4..d.len() - 1];
            let s = unescape_debug(inner);
            v.push(json!({"t": "key", "k": s, "i": ""}));
        } else {
            v.push(json!({"t": "unknown", "k": d, "i": ""}));
        }
    }
    J::Array(v)
}

fn unescape_debug(quoted: &str) -> String {
    // quoted is "..." as produced by <str as Debug>
    let inner = &quoted[1..quoted.len() - 1];
    let mut out = String::new();
    let mut it = inner.chars().peekable();
    while let Some(c) = it.next() {
        if c != '\\' {
            out.push(c);
            continue;
        }
        match it.next() {
            Some('n') => out.push('\n'),
            Some('r') => out.push('\r'),
            Some('t') => out.push('\t'),
            Some('0') => out.push('\0'),
            Some('\\') => out.push('\\'),
            Some('"') => out.push('"'),
            Some('\'') => out.push('\''),
            Some('u') => {
                // \u{XXXX}
                let mut hex = String::new();
                it.next(); // {
                for h in it.by_ref() {
                    if h == '}' {
                        break;
                    }
                    hex.push(h);
                }
                if let Some(ch) = u32::from_str_radix(&hex, 16).ok().and_then(char::from_u32) {
                    out.push(ch);
                }
            }
            Some(o) => out.push(o),
            None => {}
        }
    }
    out
}

fn observe(loc: ValuePointerRef, ev: &str, step: Option<&Step>, inp: Option<&[Step]>, out: &mut Out) {
    let mut o = json!({
        "e": ev,
        "owned": owned_j(&loc.to_owned()),
        "origin": loc.is_origin(),
        "first": opt_s(loc.first_field()),
        "last": opt_s(loc.last_field()),
    });
    if let Some(s) = step {
        o["step"] = step_j(s);
    }
    if let Some(p) = inp {
        o["inp"] = json!({"path": p.iter().map(step_j).collect::<Vec<_>>()});
    }
    out.emit(&o);
}

fn walk(steps: &[Step], loc: ValuePointerRef, out: &mut Out) {
    if let Some((first, rest)) = steps.split_first() {
        match first {
            Step::Key(k) => {
                let next = loc.push_key(k);
                observe(next, "push", Some(first), None, out);
                walk(rest, next, out);
            }
            Step::Idx(i) => {
                let next = loc.push_index(*i);
                observe(next, "push", Some(first), None, out);
                walk(rest, next, out);
            }
        }
        // the callee returned: the caller's location, observed again
        observe(loc, "pop", None, None, out);
    }
}

fn random_step(rng: &mut Rng, mode: u64) -> Step {
    let keys = ["a", "b", "toto", "tata", "", "k k", "ключ", "é", "x.y", "[0]", "0"];
    let key = match mode {
        0 => false,
        1 => true,
        _ => rng.chance(1, 2),
    };
    if key {
        Step::Key(rng.pick(&keys).to_string())
    } else {
        Step::Idx(match rng.below(6) {
            0 => usize::MAX,
            1 => 0,
            2 => 4294967296usize,
            _ => rng.below(1000) as usize,
        })
    }
}

/// A walk over a tree of locations, as the deserializer does it: `ops` is a sequence of pushes (Some) and returns (None); every
/// push is made onto the current node's own location (siblings share the prefix), the child is observed and explored, and on its
/// return the parent is observed again.  Unbalanced returns at the root end the walk.
fn exec<'a>(ops: &mut std::slice::Iter<'a, Option<Step>>, loc: ValuePointerRef, out: &mut Out) {
    while let Some(op) = ops.next() {
        match op {
            Some(st @ Step::Key(k)) => {
                let next = loc.push_key(k);
                observe(next, "push", Some(st), None, out);
                exec(ops, next, out);
            }
            Some(st @ Step::Idx(i)) => {
                let next = loc.push_index(*i);
                observe(next, "push", Some(st), None, out);
                exec(ops, next, out);
            }
            None => return,
        }
        observe(loc, "pop", None, None, out);
    }
}

fn ops_j(ops: &[Option<Step>]) -> J {
    J::Array(ops.iter().map(|o| o.as_ref().map(step_j).unwrap_or(json!({"t": "ret", "k": "", "i": ""}))).collect())
}

pub fn run_ops(ops: &[Option<Step>], out: &mut Out) {
    let r = crate::util::quiet_catch(std::panic::AssertUnwindSafe(|| {
        let mut o = json!({"e": "reset", "owned": owned_j(&ValuePointerRef::Origin.to_owned()), "origin": ValuePointerRef::Origin.is_origin(),
                           "first": opt_s(ValuePointerRef::Origin.first_field()), "last": opt_s(ValuePointerRef::Origin.last_field())});
        o["inp"] = json!({"path": [], "ops": ops_j(ops)});
        out.emit(&o);
        exec(&mut ops.iter(), ValuePointerRef::Origin, out);
    }));
    if let Err(m) = r {
        out.emit(&json!({"e": "push", "step": {"t": "key", "k": format!("<panic: {m}>"), "i": ""}, "owned": [], "origin": true,
                         "first": opt_s(None), "last": opt_s(None)}));
    }
}

pub fn run_path(steps: &[Step], out: &mut Out) {
    let r = crate::util::quiet_catch(std::panic::AssertUnwindSafe(|| {
        observe(ValuePointerRef::Origin, "reset", None, Some(steps), out);
        walk(steps, ValuePointerRef::Origin, out);
    }));
    if let Err(m) = r {
        // a panic of the code under test: an observation that agrees with nothing
        out.emit(&json!({"e": "push", "step": {"t": "key", "k": format!("<panic: {m}>"), "i": ""}, "owned": [], "origin": true,
                         "first": opt_s(None), "last": opt_s(None)}));
    }
}

fn parse_path(v: &J) -> Vec<Step> {
    v["path"]
        .as_array()
        .expect("path")
        .iter()
        .map(|s| match s["t"].as_str().unwrap() {
            "key" => Step::Key(s["k"].as_str().unwrap().to_string()),
            _ => Step::Idx(s["i"].as_str().unwrap().parse().unwrap()),
        })
        .collect()
}

/// `dh ptr replay` : paths from stdin (TLC REPLAY records), one trace run per path.
/// `dh ptr random N MAXLEN` : N seeded random paths.
pub fn main(args: &[String]) {
    let mut out = Out::stdout();
    match args.first().map(|s| s.as_str()) {
        Some("replay") => {
            for rec in crate::util::read_ndjson_stdin() {
                match rec.get("ops").and_then(|o| o.as_array()) {
                    Some(ops) => {
                        let ops: Vec<Option<Step>> = ops
                            .iter()
                            .map(|s| match s["t"].as_str().unwrap() {
                                "key" => Some(Step::Key(s["k"].as_str().unwrap().to_string())),
                                "idx" => Some(Step::Idx(s["i"].as_str().unwrap().parse().unwrap())),
                                _ => None,
                            })
                            .collect();
                        run_ops(&ops, &mut out)
                    }
                    None => run_path(&parse_path(&rec), &mut out),
                }
            }
        }
        Some("random") => {
            let n: usize = args[1].parse().unwrap();
            let maxlen: u64 = args[2].parse().unwrap();
            let mut rng = Rng::from_env(0xC19);
            let keys = ["a", "b", "toto", "tata", "", "k k", "ключ", "é", "x.y", "[0]", "0"];
            for _ in 0..n {
                let len = rng.below(maxlen + 1);
                let mut p = Vec::new();
                // bias: some paths without keys, some without indices
                let mode = rng.below(4);
                for _ in 0..len {
                    let key = match mode {
                        0 => false,
                        1 => true,
                        _ => rng.chance(1, 2),
                    };
                    if key {
                        p.push(Step::Key(rng.pick(&keys).to_string()));
                    } else {
                        let i = match rng.below(6) {
                            0 => usize::MAX,
                            1 => 0,
                            2 => 4294967296usize,
                            _ => rng.below(1000) as usize,
                        };
                        p.push(Step::Idx(i));
                    }
                }
                run_path(&p, &mut out);
            }
        }
        Some("tree") => {
            let n: usize = args[1].parse().unwrap();
            let maxops: u64 = args[2].parse().unwrap();
            let mut rng = Rng::from_env(0xC19 + 1);
            for _ in 0..n {
                let mode = rng.below(4);
                let nops = rng.below(maxops + 1);
                let mut depth = 0u64;
                let mut ops = Vec::new();
                for _ in 0..nops {
                    // returns only while something is pushed; bias towards going down, with runs of siblings
                    if depth > 0 && rng.chance(2, 5) {
                        ops.push(None);
                        depth -= 1;
                    } else {
                        ops.push(Some(random_step(&mut rng, mode)));
                        depth += 1;
                    }
                }
                run_ops(&ops, &mut out);
            }
        }
        _ => panic!("usage: dh ptr replay|random N MAXLEN|tree N MAXDEPTH"),
    }
    out.flush();
}
