//! Building blocks (spec/DTraits.tla): FieldState helpers, take_cf_content, the Map trait of serde_json::Map and the
//! Sequence trait of Vec / arrays, driven with seeded inputs through deserr's own trait methods.
use crate::util::{Out, Rng};
use deserr::{take_cf_content, FieldState, Map, Sequence};
use serde_json::{json, Value as J};
use std::ops::ControlFlow;
use std::panic::{catch_unwind, AssertUnwindSafe};

fn fs_j(s: &FieldState<u32>) -> J {
    match s {
        FieldState::Missing => json!({"z": "missing", "v": 0}),
        FieldState::Err => json!({"z": "err", "v": 0}),
        FieldState::Some(x) => json!({"z": "some", "v": x}),
    }
}
fn mk(z: u8, x: u32) -> FieldState<u32> {
    match z {
        0 => FieldState::Missing,
        1 => FieldState::Err,
        _ => FieldState::Some(x),
    }
}

pub fn main(args: &[String]) {
    let n: usize = args.first().and_then(|s| s.parse().ok()).unwrap_or(200);
    let mut out = Out::stdout();
    let mut rng = Rng::from_env(0x7A17);
    crate::core::QUIET.store(true, std::sync::atomic::Ordering::SeqCst);
    let default_hook = std::panic::take_hook();
    std::panic::set_hook(Box::new(|_| {}));
    // FieldState: all three states x a few values
    for z in 0..3u8 {
        for x in [0u32, 1, 7, 1000] {
            let dflt = 42u32;
            let ok_or = match mk(z, x).ok_or(()) {
                Ok(v) => json!({"ok": true, "v": v}),
                Err(()) => json!({"ok": false, "v": 0}),
            };
            let unwrap_panics = catch_unwind(AssertUnwindSafe(|| mk(z, x).unwrap())).is_err();
            out.emit(&json!({"e": "reset", "k": "fieldstate", "inp": {"z": z, "x": x}, "state": fs_j(&mk(z, x)), "dflt": dflt,
                             "is_missing": mk(z, x).is_missing(), "unwrap_or": mk(z, x).unwrap_or(dflt), "ok_or": ok_or,
                             "map": fs_j(&mk(z, x).map(|v| v * 2)), "unwrap_panics": unwrap_panics}));
        }
    }
    std::panic::set_hook(default_hook);
    crate::core::QUIET.store(false, std::sync::atomic::Ordering::SeqCst);
    for v in [0u32, 5, 9] {
        out.emit(&json!({"e": "reset", "k": "cf", "inp": {"v": v, "brk": false}, "v": v, "out": take_cf_content(ControlFlow::<u32, u32>::Continue(v))}));
        out.emit(&json!({"e": "reset", "k": "cf", "inp": {"v": v, "brk": true}, "v": v, "out": take_cf_content(ControlFlow::<u32, u32>::Break(v))}));
    }
    // Map: serde_json::Map through deserr's Map trait
    let keys = ["a", "b", "t", "type", "zz", "", "é"];
    for _ in 0..n {
        let mut m = serde_json::Map::new();
        let cnt = rng.below(6);
        // values of every kind (a member whose value is null, false, 0, "" or empty is a member like any other); they are logged
        // by a positive code so that the specification can keep 0 for "absent"
        let specials = [json!(null), json!(false), json!(0), json!(""), json!([]), json!({})];
        let code = |v: &J| -> u64 {
            match specials.iter().position(|s| s == v) {
                Some(i) => 11 + i as u64,
                None => v.as_u64().unwrap(),
            }
        };
        for _ in 0..cnt {
            let v = if rng.below(3) == 0 { rng.pick(&specials).clone() } else { json!(rng.below(9) + 1) };
            m.insert(rng.pick(&keys).to_string(), v);
        }
        let members: Vec<J> = m.iter().map(|(k, v)| json!({"k": k, "v": code(v)})).collect();
        let mut ops = Vec::new();
        for _ in 0..rng.below(4) {
            let k = *rng.pick(&keys);
            let res = match Map::remove(&mut m, k) {
                Some(v) => json!({"z": "some", "v": code(&v)}),
                None => json!({"z": "none", "v": 0}),
            };
            ops.push(json!({"k": k, "res": res}));
        }
        let len = Map::len(&m);
        let is_empty = Map::is_empty(&m);
        let iter: Vec<J> = Map::into_iter(m).map(|(k, v)| json!({"k": k, "v": code(&v)})).collect();
        out.emit(&json!({"e": "reset", "k": "map", "inp": {"members": members, "ops": ops}, "members": members, "ops": ops, "len": len, "is_empty": is_empty, "iter": iter}));
    }
    // Sequence: Vec and arrays
    for _ in 0..n {
        let cnt = rng.below(6) as usize;
        let v: Vec<J> = (0..cnt).map(|_| json!(rng.below(100))).collect();
        let elems = v.clone();
        let len = Sequence::len(&v);
        let is_empty = Sequence::is_empty(&v);
        let iter: Vec<J> = Sequence::into_iter(v).collect();
        out.emit(&json!({"e": "reset", "k": "seq", "inp": {"elems": elems}, "elems": elems, "len": len, "is_empty": is_empty, "iter": iter}));
    }
    let arr: [J; 3] = [json!(1), json!(2), json!(3)];
    let elems = arr.to_vec();
    let len = Sequence::len(&arr);
    let is_empty = Sequence::is_empty(&arr);
    let iter: Vec<J> = Sequence::into_iter(arr).collect();
    out.emit(&json!({"e": "reset", "k": "seq", "inp": {"elems": elems}, "elems": elems, "len": len, "is_empty": is_empty, "iter": iter}));
    let arr0: [J; 0] = [];
    out.emit(&json!({"e": "reset", "k": "seq", "inp": {"elems": []}, "elems": [], "len": Sequence::len(&arr0), "is_empty": Sequence::is_empty(&arr0),
                     "iter": Sequence::into_iter(arr0).collect::<Vec<J>>()}));
    out.flush();
}
