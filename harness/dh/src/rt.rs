//! Runtime of the core conformance harness: the event log, the scripted recording error types
//! (`RecErr`, `RecErr2`, user-function error `FnErr`), the transparent probe `P<N, T>` and the
//! result-value encoder `ToJ`.  Nothing here decides anything: every call-back of deserr is logged
//! with its arguments and the answer given; the TLA+ machine (spec/Deserr.tla) is the oracle.
use crate::enc::{enc_value, float_bits};
use crate::ov::{signed_j, OV};
use crate::scalar::digit_runs;
use deserr::{DeserializeError, Deserr, ErrorKind, IntoValue, MergeWithError, Sequence, Value, ValuePointerRef};
use serde_json::{json, Value as J};
use std::cell::RefCell;
use std::collections::{BTreeMap, BTreeSet, HashMap, HashSet};
use std::ops::ControlFlow;

pub struct Ctx {
    pub events: Vec<J>,
    pub next_id: u32,
    pub script: Vec<bool>, // true = Continue
    pub pos: usize,
    pub default_continue: bool,
    pub decisions: u32,
    pub want_msgs: bool,
    pub deep: bool, // values are not spelled out in the trace (nesting limits of the JSON readers)
}

thread_local! {
    pub static CTX: RefCell<Ctx> = RefCell::new(Ctx { events: Vec::new(), next_id: 1, script: Vec::new(), pos: 0,
        default_continue: true, decisions: 0, want_msgs: false, deep: false });
}

pub fn set_deep(deep: bool) {
    CTX.with(|c| c.borrow_mut().deep = deep);
}
fn is_deep() -> bool {
    CTX.with(|c| c.borrow().deep)
}

pub fn reset_ctx(script: &[bool], default_continue: bool, want_msgs: bool) {
    CTX.with(|c| {
        let mut c = c.borrow_mut();
        c.events.clear();
        c.next_id = 1;
        c.script = script.to_vec();
        c.pos = 0;
        c.default_continue = default_continue;
        c.decisions = 0;
        c.want_msgs = want_msgs;
    });
}

pub fn take_events() -> Vec<J> {
    CTX.with(|c| std::mem::take(&mut c.borrow_mut().events))
}

pub fn push_event(e: J) {
    CTX.with(|c| c.borrow_mut().events.push(e));
}

pub fn fresh_id() -> u32 {
    CTX.with(|c| {
        let mut c = c.borrow_mut();
        let id = c.next_id;
        c.next_id += 1;
        id
    })
}

/// next scripted answer: true = Continue
fn answer() -> bool {
    CTX.with(|c| {
        let mut c = c.borrow_mut();
        c.decisions += 1;
        let a = if c.pos < c.script.len() { c.script[c.pos] } else { c.default_continue };
        c.pos += 1;
        a
    })
}

pub fn loc_j(l: ValuePointerRef) -> J {
    // built by walking the borrowed chain directly (not through to_owned, which C19 checks separately)
    let mut v = Vec::new();
    let mut cur = l;
    loop {
        match cur {
            ValuePointerRef::Origin => break,
            ValuePointerRef::Key { key, prev } => {
                v.push(json!({"t": "key", "k": key, "i": 0}));
                cur = *prev;
            }
            ValuePointerRef::Index { index, prev } => {
                v.push(json!({"t": "idx", "k": "", "i": index}));
                cur = *prev;
            }
        }
    }
    v.reverse();
    J::Array(v)
}

fn opt_ids(o: &Option<Vec<u32>>) -> J {
    match o {
        None => json!({"z": "none", "ids": []}),
        Some(v) => json!({"z": "some", "ids": v}),
    }
}

fn blank_det(k: &str) -> J {
    json!({"k": k, "actual": crate::enc::rec("null"), "accepted": [], "field": "", "key": "", "value": "", "expected": 0, "msg": "", "nums": []})
}

/// rebuild an OV from the uniform value record (used to re-create the built-in messages)
pub fn ov_from_rec(v: &J) -> OV {
    let digits = || -> String { v["d"].as_array().unwrap().iter().map(|d| char::from(b'0' + d.as_u64().unwrap() as u8)).collect() };
    match v["t"].as_str().unwrap() {
        "null" => OV::Null,
        "poison" => OV::Poison,
        "bool" => OV::Bool(v["b"].as_bool().unwrap()),
        "int" => OV::Int(digits().parse().unwrap()),
        "neg" => {
            let txt = if v["sg"].as_i64().unwrap() < 0 { format!("-{}", digits()) } else { digits() };
            OV::Neg(txt.parse().unwrap())
        }
        "float" => OV::Float(f64::from_bits(u64::from_str_radix(v["s"].as_str().unwrap(), 16).unwrap())),
        "str" => OV::Str(v["s"].as_str().unwrap().to_string()),
        "seq" => OV::Seq(v["e"].as_array().unwrap().iter().map(ov_from_rec).collect()),
        "map" => OV::Map(v["e"].as_array().unwrap().iter().map(|m| (m["k"].as_str().unwrap().to_string(), ov_from_rec(&m["v"]))).collect()),
        t => panic!("bad value tag {t}"),
    }
}

/// structured details of an ErrorKind (consumes it) + the two built-in renderings when asked for
fn describe<V: IntoValue>(error: ErrorKind<V>, location: ValuePointerRef, want_msgs: bool) -> (J, String, String) {
    use deserr::errors::{JsonError, QueryParamError};
    let mut mj = String::new();
    let mut mq = String::new();
    let det = match error {
        ErrorKind::IncorrectValueKind { actual, accepted } => {
            let mut d = blank_det("kind");
            d["actual"] = enc_value(actual);
            d["accepted"] = json!(accepted.iter().map(|k| k.to_string()).collect::<Vec<_>>());
            if want_msgs {
                let mk = || -> ErrorKind<OV> { ErrorKind::IncorrectValueKind { actual: ov_from_rec(&d["actual"]).into_value(), accepted } };
                mj = take(JsonError::error::<OV>(None, mk(), location)).to_string();
                mq = take(QueryParamError::error::<OV>(None, mk(), location)).to_string();
            }
            d
        }
        ErrorKind::MissingField { field } => {
            let mut d = blank_det("missing");
            d["field"] = json!(field);
            if want_msgs {
                mj = take(JsonError::error::<OV>(None, ErrorKind::MissingField { field }, location)).to_string();
                mq = take(QueryParamError::error::<OV>(None, ErrorKind::MissingField { field }, location)).to_string();
            }
            d
        }
        ErrorKind::UnknownKey { key, accepted } => {
            let mut d = blank_det("unknownkey");
            d["key"] = json!(key);
            d["accepted"] = json!(accepted);
            if want_msgs {
                mj = take(JsonError::error::<OV>(None, ErrorKind::UnknownKey { key, accepted }, location)).to_string();
                mq = take(QueryParamError::error::<OV>(None, ErrorKind::UnknownKey { key, accepted }, location)).to_string();
            }
            d
        }
        ErrorKind::UnknownValue { value, accepted } => {
            let mut d = blank_det("unknownvalue");
            d["value"] = json!(value);
            d["accepted"] = json!(accepted);
            if want_msgs {
                mj = take(JsonError::error::<OV>(None, ErrorKind::UnknownValue { value, accepted }, location)).to_string();
                mq = take(QueryParamError::error::<OV>(None, ErrorKind::UnknownValue { value, accepted }, location)).to_string();
            }
            d
        }
        ErrorKind::BadSequenceLen { actual, expected } => {
            let mut d = blank_det("badlen");
            let v: Value<V> = Value::Sequence(actual);
            d["actual"] = enc_value(v);
            d["expected"] = json!(expected);
            if want_msgs {
                let mk = || -> ErrorKind<OV> {
                    match ov_from_rec(&d["actual"]) {
                        OV::Seq(s) => ErrorKind::BadSequenceLen { actual: s, expected },
                        _ => unreachable!(),
                    }
                };
                mj = take(JsonError::error::<OV>(None, mk(), location)).to_string();
                mq = take(QueryParamError::error::<OV>(None, mk(), location)).to_string();
            }
            d
        }
        ErrorKind::Unexpected { msg } => {
            let mut d = blank_det("unexpected");
            d["nums"] = J::Array(digit_runs(&msg));
            d["msg"] = json!(msg);
            if want_msgs {
                mj = take(JsonError::error::<OV>(None, ErrorKind::Unexpected { msg: msg.clone() }, location)).to_string();
                mq = take(QueryParamError::error::<OV>(None, ErrorKind::Unexpected { msg }, location)).to_string();
            }
            d
        }
    };
    (det, mj, mq)
}

fn take<T>(c: ControlFlow<T, T>) -> T {
    match c {
        ControlFlow::Continue(x) | ControlFlow::Break(x) => x,
    }
}

fn cf<T>(cont: bool, x: T) -> ControlFlow<T, T> {
    if cont {
        ControlFlow::Continue(x)
    } else {
        ControlFlow::Break(x)
    }
}

/// Mechanical analysis of a rendered message: its back-quoted segments (text; parsed as JSON by serde_json when it
/// parses; parsed as a path when it has the shape of one) and the digit runs outside the segments.
pub fn analyse_msg(msg: &str) -> (J, J) {
    let parts: Vec<&str> = msg.split('`').collect();
    let mut segs = Vec::new();
    let mut outside = String::new();
    for (i, p) in parts.iter().enumerate() {
        if i % 2 == 1 && i < parts.len() - 1 + (parts.len() % 2) {
            let parsed = match serde_json::from_str::<J>(p) {
                Ok(v) => json!({"z": "some", "v": enc_value(v.into_value())}),
                Err(_) => json!({"z": "none", "v": crate::enc::rec("null")}),
            };
            let num = match p.parse::<f64>() {
                Ok(f) if !p.is_empty() => json!({"z": "some", "bits": crate::enc::float_bits(f)}),
                _ => json!({"z": "none", "bits": ""}),
            };
            segs.push(json!({"t": p, "json": parsed, "num": num, "path": parse_path(p)}));
        } else {
            outside.push_str(p);
            outside.push(' ');
        }
    }
    (J::Array(segs), J::Array(digit_runs(&outside)))
}

/// `.key[3].k2` (JsonError) or `key[3].k2` (QueryParamError) read back as steps; keys are letters, digits and underscores
fn parse_path(p: &str) -> J {
    let b: Vec<char> = p.chars().collect();
    let mut steps = Vec::new();
    let mut i = 0;
    let mut first = true;
    if b.is_empty() {
        return json!({"z": "none", "steps": []});
    }
    while i < b.len() {
        if b[i] == '[' {
            let st = i + 1;
            let mut j = st;
            while j < b.len() && b[j].is_ascii_digit() {
                j += 1;
            }
            if j == st || j >= b.len() || b[j] != ']' {
                return json!({"z": "none", "steps": []});
            }
            let n: String = b[st..j].iter().collect();
            match n.parse::<u32>() {
                Ok(x) => steps.push(json!({"t": "idx", "k": "", "i": x})),
                Err(_) => return json!({"z": "none", "steps": []}),
            }
            i = j + 1;
        } else {
            if b[i] == '.' {
                i += 1;
            } else if !first {
                return json!({"z": "none", "steps": []});
            }
            let st = i;
            while i < b.len() && (b[i].is_alphanumeric() || b[i] == '_') {
                i += 1;
            }
            if i == st {
                return json!({"z": "none", "steps": []});
            }
            let k: String = b[st..i].iter().collect();
            steps.push(json!({"t": "key", "k": k, "i": 0}));
        }
        first = false;
    }
    json!({"z": "some", "steps": steps})
}

fn cps(s: &str) -> Vec<u32> {
    s.chars().map(|c| c as u32).collect()
}

/// Shared body of `error` for both recording error types.
fn rec_error<V: IntoValue>(ety: &str, self_: Option<Vec<u32>>, error: ErrorKind<V>, location: ValuePointerRef) -> (bool, Vec<u32>) {
    let id = fresh_id();
    let want = CTX.with(|c| c.borrow().want_msgs);
    let (mut det, mj, mq) = describe(error, location, want && !is_deep());
    if is_deep() {
        det["actual"] = crate::enc::rec("null");
    }
    let mut out = self_.clone().unwrap_or_default();
    out.push(id);
    let a = answer();
    let mut ev = json!({"e": "err", "ety": ety, "id": id, "loc": loc_j(location), "det": det, "self": opt_ids(&self_),
                        "ans": if a { "c" } else { "b" }, "out": out});
    if want && !is_deep() {
        let (sj, nj) = analyse_msg(&mj);
        let (sq, nq) = analyse_msg(&mq);
        ev["ma"] = json!({"has": true, "sj": sj, "nj": nj, "sq": sq, "nq": nq,
                          "keycp": cps(ev["det"]["key"].as_str().unwrap_or("")), "valuecp": cps(ev["det"]["value"].as_str().unwrap_or("")),
                          "acccp": ev["det"]["accepted"].as_array().map(|a| a.iter().map(|x| json!(cps(x.as_str().unwrap_or("")))).collect::<Vec<_>>()).unwrap_or_default()});
    } else {
        ev["ma"] = json!({"has": false, "sj": [], "nj": [], "sq": [], "nq": [], "keycp": [], "valuecp": [], "acccp": []});
    }
    ev["mj"] = json!(mj);
    ev["mq"] = json!(mq);
    push_event(ev);
    (a, out)
}

/// Shared body of every `merge`.  `other` is either the id list of a recording error (hand-over) or,
/// for a user function's error, the single id that this merge turns into a report.
fn rec_merge(ety: &str, src: &str, self_: Option<Vec<u32>>, other: Vec<u32>, location: ValuePointerRef) -> (bool, Vec<u32>) {
    rec_merge_msgs(ety, src, self_, other, location, String::new(), String::new())
}

fn rec_merge_msgs(ety: &str, src: &str, self_: Option<Vec<u32>>, other: Vec<u32>, location: ValuePointerRef, mj: String, mq: String) -> (bool, Vec<u32>) {
    let mut out = self_.clone().unwrap_or_default();
    out.extend(other.iter().copied());
    let a = answer();
    push_event(json!({"e": "mrg", "ety": ety, "src": src, "loc": loc_j(location), "self": opt_ids(&self_), "other": other,
                      "ans": if a { "c" } else { "b" }, "out": out, "mj": mj, "mq": mq}));
    (a, out)
}

/// how the built-in error types render a user function's error (their blanket MergeWithError<E: std::error::Error>)
fn fn_msgs(other: &FnErr, l: ValuePointerRef) -> (String, String) {
    use deserr::errors::{JsonError, QueryParamError};
    let want = CTX.with(|c| c.borrow().want_msgs) && !is_deep();
    if !want {
        return (String::new(), String::new());
    }
    (
        take(<JsonError as MergeWithError<FnErr>>::merge(None, other.clone(), l)).to_string(),
        take(<QueryParamError as MergeWithError<FnErr>>::merge(None, other.clone(), l)).to_string(),
    )
}

/// The recording, scripted error type: its value is the list of report ids it was handed, in order.
#[derive(Debug, Clone, PartialEq)]
pub struct RecErr {
    pub ids: Vec<u32>,
}
/// A second, distinct recording error type (field-level `error = RecErr2`).
#[derive(Debug, Clone, PartialEq)]
pub struct RecErr2 {
    pub ids: Vec<u32>,
}
/// Error of the catalogue's user functions; `id` is allocated when the function fails.
#[derive(Debug, Clone, PartialEq)]
pub struct FnErr {
    pub id: u32,
    pub f: &'static str,
}
impl std::fmt::Display for FnErr {
    fn fmt(&self, f: &mut std::fmt::Formatter<'_>) -> std::fmt::Result {
        write!(f, "user function {} failed", self.f)
    }
}
impl std::error::Error for FnErr {}

pub fn new_fn_err(f: &'static str) -> FnErr {
    FnErr { id: fresh_id(), f }
}

impl DeserializeError for RecErr {
    fn error<V: IntoValue>(self_: Option<Self>, error: ErrorKind<V>, location: ValuePointerRef) -> ControlFlow<Self, Self> {
        let (a, out) = rec_error("E", self_.map(|s| s.ids), error, location);
        cf(a, RecErr { ids: out })
    }
}
impl MergeWithError<RecErr> for RecErr {
    fn merge(self_: Option<Self>, other: RecErr, l: ValuePointerRef) -> ControlFlow<Self, Self> {
        let (a, out) = rec_merge("E", "E", self_.map(|s| s.ids), other.ids, l);
        cf(a, RecErr { ids: out })
    }
}
impl MergeWithError<RecErr2> for RecErr {
    fn merge(self_: Option<Self>, other: RecErr2, l: ValuePointerRef) -> ControlFlow<Self, Self> {
        let (a, out) = rec_merge("E", "F", self_.map(|s| s.ids), other.ids, l);
        cf(a, RecErr { ids: out })
    }
}
impl MergeWithError<FnErr> for RecErr {
    fn merge(self_: Option<Self>, other: FnErr, l: ValuePointerRef) -> ControlFlow<Self, Self> {
        let (mj, mq) = fn_msgs(&other, l);
        let (a, out) = rec_merge_msgs("E", &format!("fn:{}", other.f), self_.map(|s| s.ids), vec![other.id], l, mj, mq);
        cf(a, RecErr { ids: out })
    }
}
impl DeserializeError for RecErr2 {
    fn error<V: IntoValue>(self_: Option<Self>, error: ErrorKind<V>, location: ValuePointerRef) -> ControlFlow<Self, Self> {
        let (a, out) = rec_error("F", self_.map(|s| s.ids), error, location);
        cf(a, RecErr2 { ids: out })
    }
}
impl MergeWithError<RecErr2> for RecErr2 {
    fn merge(self_: Option<Self>, other: RecErr2, l: ValuePointerRef) -> ControlFlow<Self, Self> {
        let (a, out) = rec_merge("F", "F", self_.map(|s| s.ids), other.ids, l);
        cf(a, RecErr2 { ids: out })
    }
}
impl MergeWithError<FnErr> for RecErr2 {
    fn merge(self_: Option<Self>, other: FnErr, l: ValuePointerRef) -> ControlFlow<Self, Self> {
        let (mj, mq) = fn_msgs(&other, l);
        let (a, out) = rec_merge_msgs("F", &format!("fn:{}", other.f), self_.map(|s| s.ids), vec![other.id], l, mj, mq);
        cf(a, RecErr2 { ids: out })
    }
}

/// Read the id list out of an error value when it is one of the recording types.  The derive's
/// generic error parameter carries no bound we could use, so the concrete type is recognised by name.
pub fn peek_ids<E>(e: &E) -> J {
    let n = std::any::type_name::<E>();
    if n == std::any::type_name::<RecErr>() {
        // SAFETY: E is RecErr (same type name within this crate), so the reference is valid at that type
        let r: &RecErr = unsafe { &*(e as *const E as *const RecErr) };
        json!({"z": "E", "ids": r.ids})
    } else if n == std::any::type_name::<RecErr2>() {
        let r: &RecErr2 = unsafe { &*(e as *const E as *const RecErr2) };
        json!({"z": "F", "ids": r.ids})
    } else {
        json!({"z": "other", "ids": []})
    }
}

// ---------------------------------------------------------------------------------------------
// result values
// ---------------------------------------------------------------------------------------------
/// uniform result-value record [r, b, sg, d, s, name, e]
pub fn rv(r: &str) -> J {
    json!({"r": r, "b": false, "sg": 0, "d": [0], "s": "", "name": "", "e": []})
}

pub trait ToJ {
    fn to_j(&self) -> J;
}

macro_rules! int_toj {
    ($($t:ty),*) => {$(
        impl ToJ for $t {
            fn to_j(&self) -> J {
                let mut r = rv("num");
                let s = signed_j(&self.to_string());
                r["sg"] = s["sg"].clone();
                r["d"] = s["d"].clone();
                r
            }
        }
    )*};
}
int_toj!(u8, u16, u32, u64, u128, usize, i8, i16, i32, i64, i128, isize);
int_toj!(std::num::NonZeroU8, std::num::NonZeroU16, std::num::NonZeroU32, std::num::NonZeroU64, std::num::NonZeroU128, std::num::NonZeroUsize);
int_toj!(std::num::NonZeroI8, std::num::NonZeroI16, std::num::NonZeroI32, std::num::NonZeroI64, std::num::NonZeroI128, std::num::NonZeroIsize);

impl ToJ for bool {
    fn to_j(&self) -> J {
        let mut r = rv("bool");
        r["b"] = json!(*self);
        r
    }
}
impl ToJ for () {
    fn to_j(&self) -> J {
        rv("unit")
    }
}
impl ToJ for String {
    fn to_j(&self) -> J {
        let mut r = rv("str");
        r["s"] = json!(self);
        r
    }
}
impl ToJ for char {
    fn to_j(&self) -> J {
        let mut r = rv("str");
        r["s"] = json!(self.to_string());
        r
    }
}
impl ToJ for f64 {
    fn to_j(&self) -> J {
        let mut r = rv("float");
        r["s"] = json!(float_bits(*self));
        r
    }
}
impl ToJ for f32 {
    fn to_j(&self) -> J {
        let mut r = rv("float");
        r["s"] = json!(float_bits(*self as f64));
        r
    }
}
impl<T: ToJ> ToJ for Vec<T> {
    fn to_j(&self) -> J {
        let mut r = rv("list");
        r["e"] = J::Array(self.iter().map(|x| x.to_j()).collect());
        r
    }
}
impl<T: ToJ, const N: usize> ToJ for [T; N] {
    fn to_j(&self) -> J {
        let mut r = rv("list");
        r["e"] = J::Array(self.iter().map(|x| x.to_j()).collect());
        r
    }
}
impl<A: ToJ, B: ToJ> ToJ for (A, B) {
    fn to_j(&self) -> J {
        let mut r = rv("list");
        r["e"] = json!([self.0.to_j(), self.1.to_j()]);
        r
    }
}
impl<A: ToJ, B: ToJ, C: ToJ> ToJ for (A, B, C) {
    fn to_j(&self) -> J {
        let mut r = rv("list");
        r["e"] = json!([self.0.to_j(), self.1.to_j(), self.2.to_j()]);
        r
    }
}
fn sorted_set(mut v: Vec<J>) -> J {
    v.sort_by_key(|x| x.to_string());
    v.dedup();
    let mut r = rv("set");
    r["e"] = J::Array(v);
    r
}
impl<T: ToJ> ToJ for HashSet<T> {
    fn to_j(&self) -> J {
        sorted_set(self.iter().map(|x| x.to_j()).collect())
    }
}
impl<T: ToJ> ToJ for BTreeSet<T> {
    fn to_j(&self) -> J {
        sorted_set(self.iter().map(|x| x.to_j()).collect())
    }
}
fn sorted_map(mut v: Vec<(String, J)>) -> J {
    v.sort_by(|a, b| a.0.cmp(&b.0));
    let mut r = rv("map");
    r["e"] = J::Array(v.into_iter().map(|(k, x)| json!({"k": k, "v": x})).collect());
    r
}
impl<K: ToString, T: ToJ> ToJ for HashMap<K, T> {
    fn to_j(&self) -> J {
        sorted_map(self.iter().map(|(k, x)| (k.to_string(), x.to_j())).collect())
    }
}
impl<K: ToString, T: ToJ> ToJ for BTreeMap<K, T> {
    fn to_j(&self) -> J {
        sorted_map(self.iter().map(|(k, x)| (k.to_string(), x.to_j())).collect())
    }
}
impl<T: ToJ> ToJ for Option<T> {
    fn to_j(&self) -> J {
        match self {
            None => rv("none"),
            Some(x) => {
                let mut r = rv("some");
                r["e"] = json!([x.to_j()]);
                r
            }
        }
    }
}
impl<T: ToJ> ToJ for Box<T> {
    fn to_j(&self) -> J {
        (**self).to_j()
    }
}
impl<T: ToJ> ToJ for std::marker::PhantomData<T> {
    fn to_j(&self) -> J {
        rv("unit")
    }
}
impl<R: ToString> ToJ for serde_cs::vec::CS<R> {
    fn to_j(&self) -> J {
        let mut r = rv("list");
        r["e"] = J::Array(
            self.0
                .iter()
                .map(|x| {
                    let mut s = rv("str");
                    s["s"] = json!(x.to_string());
                    s
                })
                .collect(),
        );
        r
    }
}
impl ToJ for J {
    fn to_j(&self) -> J {
        let mut r = rv("json");
        r["e"] = json!([crate::enc::enc_doc(self)]);
        r
    }
}

// ---------------------------------------------------------------------------------------------
// the probe
// ---------------------------------------------------------------------------------------------
/// Transparent probe: logs Enter / Exit around the wrapped type's deserialize_from_value.
#[derive(Debug, Clone, Default, PartialEq, Eq, Hash, PartialOrd, Ord)]
pub struct P<const N: u32, T>(pub T);

impl<const N: u32, T: ToJ> ToJ for P<N, T> {
    fn to_j(&self) -> J {
        self.0.to_j()
    }
}
impl<const N: u32, T: std::fmt::Display> std::fmt::Display for P<N, T> {
    fn fmt(&self, f: &mut std::fmt::Formatter<'_>) -> std::fmt::Result {
        self.0.fmt(f)
    }
}
impl<const N: u32, T: std::str::FromStr> std::str::FromStr for P<N, T> {
    type Err = T::Err;
    fn from_str(s: &str) -> Result<Self, Self::Err> {
        T::from_str(s).map(P)
    }
}

/// kind and scalar summary of a value, without consuming it
fn summary<V: IntoValue>(v: &Value<V>) -> (String, String) {
    match v {
        Value::Null => ("Null".into(), "".into()),
        Value::Boolean(b) => ("Boolean".into(), b.to_string()),
        Value::Integer(x) => ("Integer".into(), x.to_string()),
        Value::NegativeInteger(x) => ("NegativeInteger".into(), x.to_string()),
        Value::Float(f) => ("Float".into(), float_bits(*f)),
        Value::String(s) => ("String".into(), s.clone()),
        Value::Sequence(s) => ("Sequence".into(), s.len().to_string()),
        Value::Map(m) => ("Map".into(), deserr::Map::len(m).to_string()),
    }
}

impl<const N: u32, T, E> Deserr<E> for P<N, T>
where
    T: Deserr<E> + ToJ,
    E: DeserializeError,
{
    fn deserialize_from_value<V: IntoValue>(value: Value<V>, location: ValuePointerRef) -> Result<Self, E> {
        let (vk, sc) = summary(&value);
        push_event(json!({"e": "enter", "n": N, "loc": loc_j(location), "vk": vk, "sc": sc}));
        let r = T::deserialize_from_value(value, location);
        match &r {
            Ok(x) => push_event(json!({"e": "exit", "n": N, "ok": true, "val": if is_deep() { rv("unit") } else { x.to_j() }, "err": {"z": "none", "ids": []}})),
            Err(e) => push_event(json!({"e": "exit", "n": N, "ok": false, "val": rv("unit"), "err": peek_ids(e)})),
        }
        r.map(P)
    }
}

// ---------------------------------------------------------------------------------------------
// user-function logging helpers (used by the generated catalogue)
// ---------------------------------------------------------------------------------------------
pub fn log_call(f: &str, args: Vec<J>) {
    push_event(json!({"e": "call", "f": f, "args": args}));
}
pub fn log_ret_ok(f: &str, val: J) {
    push_event(json!({"e": "ret", "f": f, "ok": true, "val": val, "id": 0}));
}
pub fn log_ret_err(f: &str, id: u32) {
    push_event(json!({"e": "ret", "f": f, "ok": false, "val": rv("unit"), "id": id}));
}
pub fn str_rv(s: &str) -> J {
    let mut r = rv("str");
    r["s"] = json!(s);
    r
}
pub fn strs_rv(xs: &[&str]) -> J {
    let mut r = rv("list");
    r["e"] = J::Array(xs.iter().map(|s| str_rv(s)).collect());
    r
}
pub fn loc_rv(l: ValuePointerRef) -> J {
    let mut r = rv("loc");
    r["e"] = loc_j(l);
    r
}

// ---------------------------------------------------------------------------------------------
// targets of the catalogue's from / try_from functions, and the functions' fixed rules
// ---------------------------------------------------------------------------------------------
/// What a conversion function of the catalogue returns: the intermediate value, wrapped.
#[derive(Debug, Clone, Default, PartialEq, Eq, Hash, PartialOrd, Ord)]
pub struct W<const K: u32, T>(pub T);

impl<const K: u32, T: ToJ> ToJ for W<K, T> {
    fn to_j(&self) -> J {
        let mut r = rv("wrap");
        r["name"] = json!(format!("w{K}"));
        r["e"] = json!([self.0.to_j()]);
        r
    }
}

/// The inputs on which the catalogue's fallible user functions fail (controlled by the payload):
/// odd numbers, strings containing '!', `false`; wrappers / lists / structs by their first component.
pub fn designated(j: &J) -> bool {
    match j["r"].as_str().unwrap_or("") {
        "num" => j["d"].as_array().and_then(|d| d.last()).and_then(|x| x.as_u64()).map(|x| x % 2 == 1).unwrap_or(false),
        "str" => j["s"].as_str().map(|s| s.contains('!')).unwrap_or(false),
        "bool" => !j["b"].as_bool().unwrap_or(true),
        "wrap" | "some" | "list" | "set" => j["e"].as_array().and_then(|e| e.first()).map(designated).unwrap_or(false),
        "struct" | "variant" | "map" => j["e"].as_array().and_then(|e| e.first()).map(|m| designated(&m["v"])).unwrap_or(false),
        _ => false,
    }
}

/// ... and the finished values the catalogue's `validate` functions reject: a different criterion than the conversions use, so that a
/// value whose conversions all succeeded can still be rejected (numbers ending in 2, 3, 6, 7; strings containing '?'; a unit
/// variant named `B`), anywhere inside the value.
pub fn designated_v(j: &J) -> bool {
    match j["r"].as_str().unwrap_or("") {
        "num" => j["d"].as_array().and_then(|d| d.last()).and_then(|x| x.as_u64()).map(|x| (x / 2) % 2 == 1).unwrap_or(false),
        "str" => j["s"].as_str().map(|s| s.contains('?')).unwrap_or(false),
        "wrap" | "some" | "list" | "set" => j["e"].as_array().map(|e| e.iter().any(designated_v)).unwrap_or(false),
        "variant" if j["e"].as_array().map(|e| e.is_empty()).unwrap_or(true) => j["name"].as_str() == Some("B"),
        "struct" | "variant" | "map" => j["e"].as_array().map(|e| e.iter().any(|m| designated_v(&m["v"]))).unwrap_or(false),
        _ => false,
    }
}

pub trait Bump {
    fn bump(self) -> Self;
}
impl Bump for u8 {
    fn bump(self) -> Self {
        self.wrapping_add(1)
    }
}
impl Bump for String {
    fn bump(mut self) -> Self {
        self.push('+');
        self
    }
}
impl Bump for bool {
    fn bump(self) -> Self {
        !self
    }
}
impl<const N: u32, T: Bump> Bump for P<N, T> {
    fn bump(self) -> Self {
        P(self.0.bump())
    }
}
impl<const K: u32, T: Bump> Bump for W<K, T> {
    fn bump(self) -> Self {
        W(self.0.bump())
    }
}
/// what the catalogue's `map` functions do
pub fn bump<T: Bump>(v: T) -> T {
    v.bump()
}
