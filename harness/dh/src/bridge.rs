//! C13: observe the serde_json bridge (IntoValue::kind / into_value, From<Value>, Deserr for Value)
//! on documents given by TLC (as literal descriptions) or generated randomly.
use crate::enc::{enc_doc, enc_value, rec};
use crate::scalar::CapErr;
use crate::util::{Out, Rng};
use deserr::IntoValue;
use serde_json::{json, Value as J};

/// literal description -> JSON text
fn text_of(desc: &J) -> String {
    match desc["q"].as_str().unwrap() {
        "null" => "null".into(),
        "bool" => desc["b"].as_bool().unwrap().to_string(),
        "str" => serde_json::to_string(desc["txt"].as_str().unwrap()).unwrap(),
        "num" => {
            let digits: String = desc["d"].as_array().unwrap().iter().map(|d| char::from(b'0' + d.as_u64().unwrap() as u8)).collect();
            format!("{}{}{}", if desc["neg"].as_bool().unwrap() { "-" } else { "" }, digits, desc["txt"].as_str().unwrap())
        }
        "seq" => format!("[{}]", desc["e"].as_array().unwrap().iter().map(text_of).collect::<Vec<_>>().join(",")),
        "map" => format!(
            "{{{}}}",
            desc["e"].as_array().unwrap().iter().map(|m| format!("{}:{}", serde_json::to_string(m["k"].as_str().unwrap()).unwrap(), text_of(&m["v"]))).collect::<Vec<_>>().join(",")
        ),
        q => panic!("bad doc tag {q}"),
    }
}

/// per-node observations, pre-order, pairing the literal description with the parsed value
fn nodes(desc: &J, v: &J, out: &mut Vec<J>) {
    let kind = v.kind().to_string(); // deserr IntoValue::kind, without consuming
    let vkind = v.clone().into_value().kind().to_string(); // kind of the consumed view
    let mut n = json!({"t": enc_doc(v)["t"], "h": enc_doc(v)["h"], "kind": kind, "vkind": vkind,
                       "lit": {"neg": false, "d": [0], "fe": false}, "u": false, "i": false, "f": false});
    if let J::Number(num) = v {
        n["u"] = json!(num.is_u64());
        n["i"] = json!(num.is_i64());
        n["f"] = json!(num.is_f64());
        n["lit"] = json!({"neg": desc["neg"], "d": desc["d"], "fe": desc["fe"]});
        n["d"] = enc_doc(v)["d"].clone();
    } else {
        n["d"] = json!([0]);
    }
    out.push(n);
    match v {
        J::Array(a) => {
            for (d, x) in desc["e"].as_array().unwrap().iter().zip(a.iter()) {
                nodes(d, x, out);
            }
        }
        J::Object(o) => {
            for m in desc["e"].as_array().unwrap() {
                let k = m["k"].as_str().unwrap();
                nodes(&m["v"], &o[k], out);
            }
        }
        _ => {}
    }
}

fn run(desc: &J, out: &mut Out) {
    let text = text_of(desc);
    let parsed: Result<J, _> = serde_json::from_str(&text);
    let v = match parsed {
        Ok(v) => v,
        Err(e) => {
            // serde_json itself refuses the text (e.g. 1E400): not a document, nothing to observe
            out.emit(&json!({"e": "reset", "inp": {"doc": desc}, "text": text, "refused": e.to_string(), "parsed": false,
                             "held": rec("null"), "nodes": [], "view": rec("null"), "back_from": rec("null"),
                             "deser": {"ok": true, "doc": rec("null"), "nerr": 0}}));
            return;
        }
    };
    let obs = crate::util::quiet_catch(|| {
        let mut ns = Vec::new();
        nodes(desc, &v, &mut ns);
        let view = enc_value(v.clone().into_value());
        let back_from = enc_doc(&J::from(v.clone().into_value()));
        let deser = match deserr::deserialize::<J, J, CapErr>(v.clone()) {
            Ok(d) => json!({"ok": true, "doc": enc_doc(&d), "nerr": 0}),
            Err(CapErr(j)) => json!({"ok": false, "doc": rec("null"), "nerr": 1, "err": j}),
        };
        (ns, view, back_from, deser)
    });
    match obs {
        Ok((ns, view, back_from, deser)) => out.emit(&json!({"e": "reset", "inp": {"doc": desc}, "text": text, "parsed": true, "held": enc_doc(&v), "nodes": ns,
                     "view": view, "back_from": back_from, "deser": deser})),
        // a panic of the bridge: logged as a failed deserialization, which the specification never allows
        Err(m) => out.emit(&json!({"e": "reset", "inp": {"doc": desc}, "text": text, "parsed": true, "held": enc_doc(&v), "nodes": [],
                     "view": rec("null"), "back_from": rec("null"), "deser": {"ok": false, "doc": rec("null"), "nerr": 0, "err": m}})),
    }
}

fn lit(neg: bool, digits: &str, fe: bool, txt: &str) -> J {
    let d: Vec<u8> = digits.bytes().map(|b| b - b'0').collect();
    json!({"q": "num", "neg": neg, "d": d, "fe": fe, "txt": txt, "b": false, "e": []})
}
fn leaf(q: &str, b: bool, txt: &str) -> J {
    json!({"q": q, "neg": false, "d": [0], "fe": false, "txt": txt, "b": b, "e": []})
}

fn random_doc(rng: &mut Rng, depth: u64) -> J {
    let c = if depth == 0 { rng.below(6) } else { rng.below(9) };
    match c {
        0 => leaf("null", false, ""),
        1 => leaf("bool", rng.chance(1, 2), ""),
        2 => {
            let pool = ["", "a", "é", "😀", "key", "a b", "\"q\"", "\\", "\n"];
            leaf("str", false, *rng.pick(&pool))
        }
        3 | 4 => {
            // integer literal around the classification boundaries or random
            let neg = rng.chance(1, 2);
            let digits = match rng.below(8) {
                0 => "0".to_string(),
                1 => "9223372036854775807".into(),
                2 => "9223372036854775808".into(),
                3 => "9223372036854775809".into(),
                4 => "18446744073709551615".into(),
                5 => "18446744073709551616".into(),
                6 => "9007199254740993".into(),
                _ => (rng.next() >> rng.below(64)).to_string(),
            };
            lit(neg, &digits, false, "")
        }
        5 => {
            let neg = rng.chance(1, 3);
            let (digits, txt) = match rng.below(8) {
                0 => ("0".to_string(), ".0"),
                1 => ("5".into(), "e-324"),
                2 => ("2".into(), ".2250738585072014e-308"),
                3 => ("1".into(), ".7976931348623157e308"),
                4 => ("1".into(), "e2"),
                5 => ("0".into(), ".1"),
                6 => ("1".into(), "E+2"),
                _ => ((rng.next() % 100000).to_string(), ".5"),
            };
            lit(neg, &digits, true, txt)
        }
        6 | 7 => {
            let n = rng.below(4);
            let es: Vec<J> = (0..n).map(|_| random_doc(rng, depth - 1)).collect();
            json!({"q": "seq", "neg": false, "d": [0], "fe": false, "txt": "", "b": false, "e": es})
        }
        _ => {
            let n = rng.below(4) as usize;
            let keys = ["a", "b", "c", "", "é", "z z"];
            // distinct keys in sorted order (serde_json keeps objects sorted; the description must pair by key)
            let mut ks: Vec<&str> = Vec::new();
            for _ in 0..n {
                let k = *rng.pick(&keys);
                if !ks.contains(&k) {
                    ks.push(k);
                }
            }
            ks.sort();
            let es: Vec<J> = ks.iter().map(|k| json!({"k": k, "v": random_doc(rng, depth - 1)})).collect();
            json!({"q": "map", "neg": false, "d": [0], "fe": false, "txt": "", "b": false, "e": es})
        }
    }
}

pub fn main(args: &[String]) {
    let mut out = Out::stdout();
    match args.first().map(|s| s.as_str()) {
        Some("replay") => {
            for r in crate::util::read_ndjson_stdin() {
                run(&r["doc"], &mut out);
            }
        }
        Some("random") => {
            let n: usize = args[1].parse().unwrap();
            let maxdepth: u64 = args[2].parse().unwrap();
            let mut rng = Rng::from_env(0xC13);
            for _ in 0..n {
                let depth = rng.below(maxdepth + 1);
                let d = random_doc(&mut rng, depth);
                run(&d, &mut out);
            }
            // deep nesting (bounded by the Gson nesting limit of 255 of the TLC Json module: the encoding nests 2-3 levels per document level)
            for depth in [30usize, 60, 80] {
                let mut d = lit(true, "9223372036854775808", false, "");
                for i in 0..depth {
                    d = if i % 2 == 0 {
                        json!({"q": "seq", "neg": false, "d": [0], "fe": false, "txt": "", "b": false, "e": [d]})
                    } else {
                        json!({"q": "map", "neg": false, "d": [0], "fe": false, "txt": "", "b": false, "e": [{"k": "k", "v": d}]})
                    };
                }
                run(&d, &mut out);
            }
        }
        _ => panic!("usage: dh bridge replay|random N MAXDEPTH"),
    }
    out.flush();
}
