//! C18: call the real did_you_mean on given / random (received, accepted) inputs.
use crate::util::{Out, Rng};
use deserr::errors::helpers::did_you_mean;
use serde_json::{json, Value as J};

fn sj(s: &str) -> J {
    json!({"s": s, "cp": s.chars().map(|c| c as u32).collect::<Vec<u32>>()})
}

fn run(r: &str, acc: &[String], out: &mut Out) {
    let refs: Vec<&str> = acc.iter().map(|s| s.as_str()).collect();
    // a panic of the code under test is data, not a harness failure
    let res = crate::util::quiet_catch(|| did_you_mean(r, &refs)).unwrap_or_else(|m| format!("<panic: {m}>"));
    // the property fixes which string is named, not the wording around it: the named string is what stands between the outermost
    // back-quotes (the pinned wording is "did you mean `X`? "), or the whole trimmed text when there are none
    let named = match (res.find('`'), res.rfind('`')) {
        (Some(a), Some(b)) if a < b => res[a + 1..b].to_string(),
        _ => res.trim().to_string(),
    };
    out.emit(&json!({
        "e": "reset",
        "inp": {"r": sj(r), "acc": acc.iter().map(|s| sj(s)).collect::<Vec<_>>()},
        "out": res,
        "empty": res.trim().is_empty(),
        "named": named,
    }));
}

fn cps_to_string(v: &J) -> String {
    v.as_array().unwrap().iter().map(|c| char::from_u32(c.as_u64().unwrap() as u32).unwrap()).collect()
}

fn mutate(rng: &mut Rng, s: &[char], pool: &[char], edits: u64) -> Vec<char> {
    let mut v = s.to_vec();
    for _ in 0..edits {
        match rng.below(4) {
            0 => {
                let i = rng.below(v.len() as u64 + 1) as usize;
                v.insert(i, *rng.pick(pool));
            }
            1 if !v.is_empty() => {
                let i = rng.below(v.len() as u64) as usize;
                v.remove(i);
            }
            2 if !v.is_empty() => {
                let i = rng.below(v.len() as u64) as usize;
                v[i] = *rng.pick(pool);
            }
            _ if v.len() >= 2 => {
                let i = rng.below(v.len() as u64 - 1) as usize;
                v.swap(i, i + 1);
            }
            _ => {}
        }
    }
    v
}

pub fn main(args: &[String]) {
    let mut out = Out::stdout();
    match args.first().map(|s| s.as_str()) {
        Some("replay") => {
            for rec in crate::util::read_ndjson_stdin() {
                // TLC records carry scalar-value sequences; replay files carry {s, cp}
                let r = if rec["r"].is_array() { cps_to_string(&rec["r"]) } else { rec["r"]["s"].as_str().unwrap().to_string() };
                let acc: Vec<String> = rec["acc"]
                    .as_array()
                    .unwrap()
                    .iter()
                    .map(|a| if a.is_array() { cps_to_string(a) } else { a["s"].as_str().unwrap().to_string() })
                    .collect();
                run(&r, &acc, &mut out);
            }
        }
        Some("random") => {
            let n: usize = args[1].parse().unwrap();
            let mut rng = Rng::from_env(0xC18);
            // letters, multi-byte letters, letters differing by case only, and white space (a padded string is another string)
            let pools: [&[char]; 6] = [&['a', 'b', 'c'], &['a', 'b', 'é', 'x'], &['a', '€', 'é', 'z'], &['q', '😀', 'é', 'a', 'b'],
                                       &['a', 'A', 'b', 'B'], &['a', ' ', 'b', '\t']];
            // byte lengths around every budget threshold
            let targets = [3usize, 4, 5, 7, 8, 9, 12, 13, 14, 17, 18, 19, 24, 25, 26, 30];
            for _ in 0..n {
                let pool = *rng.pick(&pools);
                let target = *rng.pick(&targets);
                let mut base: Vec<char> = Vec::new();
                let mut bytes = 0;
                while bytes < target {
                    let c = *rng.pick(pool);
                    if bytes + c.len_utf8() > target + 1 {
                        // try to land within +-1 of the target with an ASCII filler
                        base.push('a');
                        bytes += 1;
                    } else {
                        base.push(c);
                        bytes += c.len_utf8();
                    }
                }
                let ncand = rng.below(6);
                let mut acc: Vec<String> = Vec::new();
                for _ in 0..ncand {
                    let edits = rng.below(7);
                    let c: String = mutate(&mut rng, &base, pool, edits).into_iter().collect();
                    acc.push(c);
                    // ties: sometimes repeat a candidate or add a sibling at the same number of edits
                    if rng.chance(1, 5) {
                        let c2: String = mutate(&mut rng, &base, pool, edits).into_iter().collect();
                        acc.push(c2);
                    }
                    if rng.chance(1, 10) {
                        let last = acc.last().unwrap().clone();
                        acc.push(last);
                    }
                }
                let mut recv: String = base.iter().collect();
                // sometimes the received string is one of the candidates' bases with white space around it
                if rng.chance(1, 6) {
                    let pad = " ".repeat(1 + rng.below(3) as usize);
                    recv = match rng.below(3) {
                        0 => format!("{pad}{recv}"),
                        1 => format!("{recv}{pad}"),
                        _ => format!("{pad}{recv}{pad}"),
                    };
                }
                run(&recv, &acc, &mut out);
            }
        }
        _ => panic!("usage: dh dym replay|random N"),
    }
    out.flush();
}
