//! Mechanical encoders into the uniform value record [t, b, h, sg, d, s, n, e] of the TLA+ modules.
use crate::ov::signed_j;
use deserr::{IntoValue, Map, Sequence, Value};
use serde_json::{json, Value as J};

pub fn rec(t: &str) -> J {
    json!({"t": t, "b": false, "h": "", "sg": 0, "d": [0], "s": "", "n": 0, "e": []})
}

pub fn float_bits(f: f64) -> String {
    format!("{:016x}", f.to_bits())
}

/// Encode a deserr Value by walking it through the IntoValue / Sequence / Map traits (consumes it).
pub fn enc_value<V: IntoValue>(v: Value<V>) -> J {
    let was = crate::ov::ENCODING.with(|c| c.replace(true));
    let r = enc_value_inner(v);
    crate::ov::ENCODING.with(|c| c.set(was));
    r
}

fn enc_value_inner<V: IntoValue>(v: Value<V>) -> J {
    match v {
        Value::String(s) if s == crate::ov::POISON_MARK => rec("poison"),
        Value::Null => rec("null"),
        Value::Boolean(b) => {
            let mut r = rec("bool");
            r["b"] = json!(b);
            r
        }
        Value::Integer(x) => {
            let mut r = rec("int");
            let s = signed_j(&x.to_string());
            r["sg"] = s["sg"].clone();
            r["d"] = s["d"].clone();
            r
        }
        Value::NegativeInteger(x) => {
            let mut r = rec("neg");
            let s = signed_j(&x.to_string());
            r["sg"] = s["sg"].clone();
            r["d"] = s["d"].clone();
            r
        }
        Value::Float(f) => {
            let mut r = rec("float");
            r["s"] = json!(float_bits(f));
            r
        }
        Value::String(s) => {
            let mut r = rec("str");
            r["n"] = json!(s.chars().count());
            r["s"] = json!(s);
            r
        }
        Value::Sequence(seq) => {
            let mut r = rec("seq");
            let es: Vec<J> = seq.into_iter().map(|x| enc_value_inner(x.into_value())).collect();
            r["n"] = json!(es.len());
            r["e"] = J::Array(es);
            r
        }
        Value::Map(m) => {
            let mut r = rec("map");
            let es: Vec<J> = m.into_iter().map(|(k, x)| json!({"k": k, "v": enc_value_inner(x.into_value())})).collect();
            r["n"] = json!(es.len());
            r["e"] = J::Array(es);
            r
        }
    }
}

/// Encode a serde_json document as serde_json holds it, using serde_json's own API only.
/// `h` is read off the canonical JSON text of the number (independent of the is_* predicates).
pub fn enc_doc(v: &J) -> J {
    match v {
        J::Null => rec("null"),
        J::Bool(b) => {
            let mut r = rec("bool");
            r["b"] = json!(b);
            r
        }
        J::Number(n) => {
            let mut r = rec("num");
            let txt = n.to_string();
            if txt.contains('.') || txt.contains('e') || txt.contains('E') {
                r["h"] = json!("f64");
                r["s"] = json!(float_bits(n.as_f64().unwrap()));
            } else if txt.starts_with('-') {
                r["h"] = json!("i64");
                let s = signed_j(&txt);
                r["sg"] = s["sg"].clone();
                r["d"] = s["d"].clone();
            } else {
                r["h"] = json!("u64");
                let s = signed_j(&txt);
                r["sg"] = s["sg"].clone();
                r["d"] = s["d"].clone();
            }
            r
        }
        J::String(s) => {
            let mut r = rec("str");
            r["n"] = json!(s.chars().count());
            r["s"] = json!(s);
            r
        }
        J::Array(a) => {
            let mut r = rec("seq");
            r["n"] = json!(a.len());
            r["e"] = J::Array(a.iter().map(enc_doc).collect());
            r
        }
        J::Object(o) => {
            let mut r = rec("map");
            r["n"] = json!(o.len());
            r["e"] = J::Array(o.iter().map(|(k, x)| json!({"k": k, "v": enc_doc(x)})).collect());
            r
        }
    }
}
