//! Small shared helpers: deterministic PRNG, ndjson output.
use std::io::{BufWriter, Write};

/// splitmix64 - deterministic, seedable, no dependency.
pub struct Rng(pub u64);
impl Rng {
    pub fn from_env(salt: u64) -> Self {
        let s = std::env::var("VERIF_SEED").ok().and_then(|s| s.parse::<u64>().ok()).unwrap_or(1);
        Rng(s.wrapping_mul(0x9E3779B97F4A7C15) ^ salt)
    }
    pub fn next(&mut self) -> u64 {
        self.0 = self.0.wrapping_add(0x9E3779B97F4A7C15);
        let mut z = self.0;
        z = (z ^ (z >> 30)).wrapping_mul(0xBF58476D1CE4E5B9);
        z = (z ^ (z >> 27)).wrapping_mul(0x94D049BB133111EB);
        z ^ (z >> 31)
    }
    pub fn below(&mut self, n: u64) -> u64 {
        if n == 0 { 0 } else { self.next() % n }
    }
    pub fn chance(&mut self, num: u64, den: u64) -> bool {
        self.below(den) < num
    }
    pub fn pick<'a, T>(&mut self, xs: &'a [T]) -> &'a T {
        &xs[self.below(xs.len() as u64) as usize]
    }
}

pub struct Out {
    w: BufWriter<Box<dyn Write>>,
    pub lines: u64,
}
impl Out {
    pub fn stdout() -> Self {
        Out { w: BufWriter::with_capacity(1 << 20, Box::new(std::io::stdout())), lines: 0 }
    }
    pub fn emit(&mut self, v: &serde_json::Value) {
        serde_json::to_writer(&mut self.w, v).unwrap();
        self.w.write_all(b"\n").unwrap();
        self.lines += 1;
    }
    pub fn flush(&mut self) {
        self.w.flush().unwrap();
    }
}

pub fn read_ndjson_stdin() -> Vec<serde_json::Value> {
    use std::io::BufRead;
    let stdin = std::io::stdin();
    let mut v = Vec::new();
    for line in stdin.lock().lines() {
        let line = line.unwrap();
        let t = line.trim();
        if t.is_empty() {
            continue;
        }
        v.push(serde_json::from_str(t).expect("bad ndjson line on stdin"));
    }
    v
}

pub fn opt_s(o: Option<&str>) -> serde_json::Value {
    match o {
        None => serde_json::json!({"z": "none", "v": ""}),
        Some(s) => serde_json::json!({"z": "some", "v": s}),
    }
}

/// Run code under test; a panic becomes `Err(message)` and prints nothing.
pub fn quiet_catch<T>(f: impl FnOnce() -> T) -> Result<T, String> {
    use std::sync::Once;
    static HOOK: Once = Once::new();
    HOOK.call_once(|| {
        let default_hook = std::panic::take_hook();
        std::panic::set_hook(Box::new(move |info| {
            if !crate::core::QUIET.load(std::sync::atomic::Ordering::SeqCst) {
                default_hook(info);
            }
        }));
    });
    crate::core::QUIET.store(true, std::sync::atomic::Ordering::SeqCst);
    let r = std::panic::catch_unwind(std::panic::AssertUnwindSafe(f));
    crate::core::QUIET.store(false, std::sync::atomic::Ordering::SeqCst);
    r.map_err(|p| {
        if let Some(s) = p.downcast_ref::<&str>() {
            s.to_string()
        } else if let Some(s) = p.downcast_ref::<String>() {
            s.clone()
        } else {
            "panic".to_string()
        }
    })
}
