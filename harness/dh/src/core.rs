//! Core driver: executes (catalogue entry, payload, value source, error type, answer script)
//! records against the real deserr and writes the complete event trace of each run.
use crate::enc::rec;
use crate::ov::{signed_j, OV};
use crate::rt::{self, rv, RecErr, ToJ};
use crate::scalar::ov_to_json;
use crate::util::Out;
use deserr::errors::{JsonError, QueryParamError};
use deserr::Deserr;
use serde_json::{json, Value as J};
use std::panic::{catch_unwind, AssertUnwindSafe};

pub enum Done {
    Ok(J),
    Rec(Vec<u32>),
    Msg(String),
    Panic(String),
    Skip(String),
}

pub static QUIET: std::sync::atomic::AtomicBool = std::sync::atomic::AtomicBool::new(false);

fn guarded<F: FnOnce() -> Done>(f: F) -> Done {
    QUIET.store(true, std::sync::atomic::Ordering::SeqCst);
    let r = catch_unwind(AssertUnwindSafe(f));
    QUIET.store(false, std::sync::atomic::Ordering::SeqCst);
    match r {
        Ok(d) => d,
        Err(p) => {
            let msg = if let Some(s) = p.downcast_ref::<&str>() {
                s.to_string()
            } else if let Some(s) = p.downcast_ref::<String>() {
                s.clone()
            } else {
                "panic".to_string()
            };
            Done::Panic(msg)
        }
    }
}

pub fn go<T>(src: &str, etype: &str, payload: &OV) -> Done
where
    T: Deserr<RecErr> + Deserr<JsonError> + Deserr<QueryParamError> + ToJ,
{
    let jv = if src == "json" {
        match ov_to_json(payload) {
            Some(j) => Some(j),
            None => return Done::Skip("payload not representable as serde_json::Value".into()),
        }
    } else {
        None
    };
    guarded(|| match (etype, jv) {
        ("rec", None) => match deserr::deserialize::<T, OV, RecErr>(payload.clone()) {
            Ok(x) => Done::Ok(x.to_j()),
            Err(e) => Done::Rec(e.ids),
        },
        ("rec", Some(j)) => match deserr::deserialize::<T, J, RecErr>(j) {
            Ok(x) => Done::Ok(x.to_j()),
            Err(e) => Done::Rec(e.ids),
        },
        ("json", None) => match deserr::deserialize::<T, OV, JsonError>(payload.clone()) {
            Ok(x) => Done::Ok(x.to_j()),
            Err(e) => Done::Msg(e.to_string()),
        },
        ("json", Some(j)) => match deserr::deserialize::<T, J, JsonError>(j) {
            Ok(x) => Done::Ok(x.to_j()),
            Err(e) => Done::Msg(e.to_string()),
        },
        ("query", None) => match deserr::deserialize::<T, OV, QueryParamError>(payload.clone()) {
            Ok(x) => Done::Ok(x.to_j()),
            Err(e) => Done::Msg(e.to_string()),
        },
        ("query", Some(j)) => match deserr::deserialize::<T, J, QueryParamError>(j) {
            Ok(x) => Done::Ok(x.to_j()),
            Err(e) => Done::Msg(e.to_string()),
        },
        (o, _) => panic!("unknown error type {o}"),
    })
}

/// types whose container fixes `error = RecErr`
pub fn go_rec<T>(src: &str, etype: &str, payload: &OV) -> Done
where
    T: Deserr<RecErr> + ToJ,
{
    if etype != "rec" {
        return Done::Skip("entry is only defined for the recording error type".into());
    }
    let jv = if src == "json" {
        match ov_to_json(payload) {
            Some(j) => Some(j),
            None => return Done::Skip("payload not representable as serde_json::Value".into()),
        }
    } else {
        None
    };
    guarded(|| match jv {
        None => match deserr::deserialize::<T, OV, RecErr>(payload.clone()) {
            Ok(x) => Done::Ok(x.to_j()),
            Err(e) => Done::Rec(e.ids),
        },
        Some(j) => match deserr::deserialize::<T, J, RecErr>(j) {
            Ok(x) => Done::Ok(x.to_j()),
            Err(e) => Done::Rec(e.ids),
        },
    })
}

/// the presented form of a payload: serde_json keeps object members sorted by key and cannot hold duplicates
fn presented(v: &OV, src: &str) -> OV {
    match v {
        OV::Seq(s) => OV::Seq(s.iter().map(|x| presented(x, src)).collect()),
        OV::Map(m) => {
            let mut ms: Vec<(String, OV)> = m.iter().map(|(k, x)| (k.clone(), presented(x, src))).collect();
            if src == "json" {
                ms.sort_by(|a, b| a.0.cmp(&b.0));
            }
            OV::Map(ms)
        }
        o => o.clone(),
    }
}

pub fn enc_ov(v: &OV) -> J {
    match v {
        OV::Null => rec("null"),
        OV::Poison => rec("poison"),
        OV::Bool(b) => {
            let mut r = rec("bool");
            r["b"] = json!(b);
            r
        }
        OV::Int(x) => {
            let mut r = rec("int");
            let s = signed_j(&x.to_string());
            r["sg"] = s["sg"].clone();
            r["d"] = s["d"].clone();
            r
        }
        OV::Neg(x) => {
            let mut r = rec("neg");
            let s = signed_j(&x.to_string());
            r["sg"] = s["sg"].clone();
            r["d"] = s["d"].clone();
            r
        }
        OV::Float(f) => {
            let mut r = rec("float");
            r["s"] = json!(crate::enc::float_bits(*f));
            r
        }
        OV::Str(s) => {
            let mut r = rec("str");
            r["n"] = json!(s.chars().count());
            r["s"] = json!(s);
            r
        }
        OV::Seq(s) => {
            let mut r = rec("seq");
            r["n"] = json!(s.len());
            r["e"] = J::Array(s.iter().map(enc_ov).collect());
            r
        }
        OV::Map(m) => {
            let mut r = rec("map");
            r["n"] = json!(m.len());
            r["e"] = J::Array(m.iter().map(|(k, x)| json!({"k": k, "v": enc_ov(x)})).collect());
            r
        }
    }
}

fn collect_strings(v: &OV, keys: &mut Vec<String>) {
    match v {
        OV::Str(s) => {
            for seg in s.split(',') {
                if !keys.iter().any(|k| k == seg) {
                    keys.push(seg.to_string());
                }
            }
        }
        OV::Seq(s) => s.iter().for_each(|x| collect_strings(x, keys)),
        OV::Map(m) => {
            for (k, x) in m {
                if !keys.iter().any(|q| q == k) {
                    keys.push(k.clone());
                }
                collect_strings(x, keys);
            }
        }
        _ => {}
    }
}

fn opt_parse<T: std::str::FromStr + ToString>(s: &str) -> J {
    match s.parse::<T>() {
        Ok(x) => json!({"z": "some", "v": x.to_string()}),
        Err(_) => json!({"z": "none", "v": ""}),
    }
}

/// std's FromStr on every map key / comma segment of the payload, for the key types of the catalogue
fn parse_table(v: &OV) -> J {
    let mut keys = Vec::new();
    collect_strings(v, &mut keys);
    J::Array(
        keys.iter()
            .map(|k| {
                json!({"k": k, "String": opt_parse::<String>(k), "u8": opt_parse::<u8>(k), "i32": opt_parse::<i32>(k),
                       "bool": opt_parse::<bool>(k), "char": opt_parse::<char>(k)})
            })
            .collect(),
    )
}

/// one execution; returns the number of decisions (error()/merge() calls) the error type was asked
fn run_once(r: &J, ty: u32, payload: &OV, src: &str, etype: &str, script: &[bool], dflt: bool, head: &str, isref: bool, perm: bool, out: &mut Out) -> u32 {
    run_once_x(r, ty, payload, src, etype, script, dflt, head, isref, perm, false, out)
}

#[allow(clippy::too_many_arguments)]
fn run_once_x(r: &J, ty: u32, payload: &OV, src: &str, etype: &str, script: &[bool], dflt: bool, head: &str, isref: bool, perm: bool, extra: bool, out: &mut Out) -> u32 {
    let pres = presented(payload, src);
    rt::reset_ctx(script, dflt, isref);
    rt::set_deep(r["deep"].as_bool().unwrap_or(false));
    let done = crate::gen_cat::run_entry(ty, src, etype, payload);
    let events = rt::take_events();
    let decisions = rt::CTX.with(|c| c.borrow().decisions);
    if let Done::Skip(_) = &done {
        return 0;
    }
    let mut inp = r.clone();
    if let Some(o) = inp.as_object_mut() {
        o.remove("perms");
        o.remove("extras");
        o.insert("perm".into(), json!(perm));
        o.insert("extra".into(), json!(extra));
        o.insert("val".into(), if r["deep"].as_bool().unwrap_or(false) { rec("null") } else { enc_ov(payload) });
        o.insert("src".into(), json!(src));
        o.insert("etype".into(), json!(etype));
        o.insert("script".into(), json!(script.iter().map(|b| if *b { 1 } else { 0 }).collect::<Vec<u8>>()));
        o.insert("dflt".into(), json!(if dflt { "c" } else { "b" }));
    }
    let deep = r["deep"].as_bool().unwrap_or(false);
    out.emit(&json!({"e": head, "ty": ty, "val": if deep { rec("null") } else { enc_ov(&pres) }, "src": src, "etype": etype,
                     "script": script.iter().map(|b| if *b { 1 } else { 0 }).collect::<Vec<u8>>(), "dflt": if dflt { "c" } else { "b" },
                     "deep": deep, "pk": if deep { json!([]) } else { parse_table(payload) }, "inp": inp,
                     "bare": crate::gen_cat::BARE_IDS.contains(&ty)}));
    for e in &events {
        out.emit(e);
    }
    match done {
        Done::Ok(v) => out.emit(&json!({"e": "done", "ok": true, "val": if deep { rv("unit") } else { v }, "ids": [], "msg": ""})),
        Done::Rec(ids) => out.emit(&json!({"e": "done", "ok": false, "val": rv("unit"), "ids": ids, "msg": ""})),
        Done::Msg(m) => out.emit(&json!({"e": "done", "ok": false, "val": rv("unit"), "ids": [], "msg": m})),
        Done::Panic(m) => out.emit(&json!({"e": "panic", "msg": m})),
        Done::Skip(_) => {}
    }
    decisions
}

/// One input record = one group of runs:
///   the all-Continue reference run, then (auto) the scripts C^k B^w for every k up to the number of
///   decisions, every script when there are few decisions, seeded random scripts, the built-in error
///   types, and (perms) the same payload with permuted object members.
pub fn run_record(r: &J, out: &mut Out, rng: &mut crate::util::Rng) {
    let ty = r["ty"].as_u64().unwrap() as u32;
    let src = r["src"].as_str().unwrap_or("ov");
    let etype = r["etype"].as_str().unwrap_or("rec");
    let deep = r["deep"].as_bool().unwrap_or(false);
    let payload = if deep {
        // deep nests are described, not spelled out: serde_json (128) and TLC's Json module (255) limit nesting
        let mut v = OV::Int(1);
        for i in 0..r["deepgen"]["depth"].as_u64().unwrap_or(128) {
            v = if i % 2 == 0 { OV::Seq(vec![v]) } else { OV::Map(vec![("a".to_string(), v)]) };
        }
        v
    } else {
        rt::ov_from_rec(&r["val"])
    };
    if src == "json" && ov_to_json(&payload).is_none() {
        return;
    }
    if r.get("script").is_some() && !r["script"].is_null() {
        // explicit single run (replay of one behaviour): still preceded by its reference run
        let script: Vec<bool> = r["script"].as_array().unwrap().iter().map(|x| x.as_u64().unwrap_or(1) == 1).collect();
        let dflt = r["dflt"].as_str().unwrap_or("c") == "c";
        run_once(r, ty, &payload, src, "rec", &[], true, "reset", true, false, out);
        run_once(r, ty, &payload, src, etype, &script, dflt, "run", false, false, out);
        return;
    }
    let n = run_once(r, ty, &payload, src, "rec", &[], true, "reset", true, false, out);
    let auto = &r["auto"];
    let cap = auto["prefix_cap"].as_u64().unwrap_or(0) as u32;
    for k in 0..n.min(cap) {
        let script = vec![true; k as usize];
        run_once(r, ty, &payload, src, "rec", &script, false, "run", false, false, out);
    }
    let all_upto = auto["all_upto"].as_u64().unwrap_or(0) as u32;
    if n >= 2 && n <= all_upto {
        for bits in 0..(1u32 << n) {
            let script: Vec<bool> = (0..n).map(|i| bits & (1 << i) != 0).collect();
            // C^k B^w and all-C are already covered above
            let first_b = script.iter().position(|b| !*b);
            let is_prefix = match first_b {
                None => true,
                Some(p) => script[p..].iter().all(|b| !*b),
            };
            if is_prefix {
                continue;
            }
            run_once(r, ty, &payload, src, "rec", &script, true, "run", false, false, out);
        }
    }
    for _ in 0..auto["random"].as_u64().unwrap_or(0) {
        let len = n.max(1) as usize;
        let script: Vec<bool> = (0..len).map(|_| rng.chance(2, 3)).collect();
        run_once(r, ty, &payload, src, "rec", &script, rng.chance(1, 2), "run", false, false, out);
    }
    if auto["builtin"].as_bool().unwrap_or(false) {
        run_once(r, ty, &payload, src, "json", &[], false, "run", false, false, out);
        run_once(r, ty, &payload, src, "query", &[], false, "run", false, false, out);
    }
    if let Some(ps) = r["perms"].as_array() {
        for p in ps {
            let pp = rt::ov_from_rec(p);
            run_once(r, ty, &pp, "ov", "rec", &[], true, "run", false, true, out);
        }
    }
    // the same payload with extra, unknown members added to objects that feed structs without deny_unknown_fields
    if let Some(ps) = r["extras"].as_array() {
        for p in ps {
            let pp = rt::ov_from_rec(p);
            run_once_x(r, ty, &pp, src, "rec", &[], true, "run", false, false, true, out);
        }
    }
}

/// `dh core run` : records on stdin.
pub fn main(args: &[String]) {
    let default_hook = std::panic::take_hook();
    std::panic::set_hook(Box::new(move |info| {
        // panics of the code under test are data (logged as `panic` events); anything else is a harness bug
        if !QUIET.load(std::sync::atomic::Ordering::SeqCst) {
            default_hook(info);
        }
    }));
    let mut out = Out::stdout();
    match args.first().map(|s| s.as_str()) {
        Some("run") | Some("replay") => {
            let mut rng = crate::util::Rng::from_env(0xC0DE);
            for r in crate::util::read_ndjson_stdin() {
                run_record(&r, &mut out, &mut rng);
            }
        }
        Some("entries") => {
            println!("{:?}", crate::gen_cat::ENTRY_IDS);
        }
        _ => panic!("usage: dh core run|entries"),
    }
    out.flush();
}
