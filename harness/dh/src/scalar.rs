//! C05: run the real scalar Deserr impls on boundary points (from TLC), on an exhaustive integer
//! sweep (run-length encoded) and on seeded random values; log the structured outcome.
use crate::ov::{scalar_rec, signed_j, OV};
use crate::util::{Out, Rng};
use deserr::{DeserializeError, Deserr, ErrorKind, IntoValue, MergeWithError, ValuePointerRef};
use serde_json::{json, Value as J};
use std::cell::Cell;
use std::num::*;
use std::ops::ControlFlow;

thread_local! { static NERR: Cell<u32> = Cell::new(0); }

/// Captures the one report a scalar makes.
pub struct CapErr(pub J);

impl MergeWithError<CapErr> for CapErr {
    fn merge(_s: Option<Self>, other: CapErr, _l: ValuePointerRef) -> ControlFlow<Self, Self> {
        ControlFlow::Break(other)
    }
}

/// signed digit runs of a message: maximal runs of ASCII digits, negative when directly preceded by '-'
pub fn digit_runs(msg: &str) -> Vec<J> {
    let b = msg.as_bytes();
    let mut v = Vec::new();
    let mut i = 0;
    while i < b.len() {
        if b[i].is_ascii_digit() {
            let st = i;
            while i < b.len() && b[i].is_ascii_digit() {
                i += 1;
            }
            let neg = st > 0 && b[st - 1] == b'-';
            let txt = format!("{}{}", if neg { "-" } else { "" }, &msg[st..i]);
            v.push(signed_j(&txt));
        } else {
            i += 1;
        }
    }
    v
}

impl DeserializeError for CapErr {
    fn error<V: IntoValue>(_s: Option<Self>, error: ErrorKind<V>, _l: ValuePointerRef) -> ControlFlow<Self, Self> {
        NERR.with(|c| c.set(c.get() + 1));
        let j = match error {
            ErrorKind::IncorrectValueKind { actual: _, accepted } => {
                json!({"z": "kind", "acc": accepted.iter().map(|k| k.to_string()).collect::<Vec<_>>()})
            }
            ErrorKind::Unexpected { msg } => json!({"z": "msg", "text": msg}),
            ErrorKind::MissingField { .. } => json!({"z": "other", "text": "MissingField"}),
            ErrorKind::UnknownKey { .. } => json!({"z": "other", "text": "UnknownKey"}),
            ErrorKind::UnknownValue { .. } => json!({"z": "other", "text": "UnknownValue"}),
            ErrorKind::BadSequenceLen { .. } => json!({"z": "other", "text": "BadSequenceLen"}),
        };
        ControlFlow::Break(CapErr(j))
    }
}

fn blank_res() -> J {
    json!({"z": "", "num": {"sg": 0, "d": [0]}, "b": false, "s": "", "fexact": false, "acc": [], "nums": [],
           "zero": false, "empty": false, "has_str": false, "nerr": 0, "text": ""})
}

/// How an Ok value of a scalar target is logged.
pub trait ScalarOut {
    fn enc(&self, res: &mut J, input: &OV);
}
macro_rules! int_out {
    ($($t:ty),*) => {$(
        impl ScalarOut for $t {
            fn enc(&self, res: &mut J, _input: &OV) {
                res["num"] = signed_j(&self.to_string());
            }
        }
    )*};
}
int_out!(u8, u16, u32, u64, u128, usize, i8, i16, i32, i64, i128, isize);
int_out!(NonZeroU8, NonZeroU16, NonZeroU32, NonZeroU64, NonZeroU128, NonZeroUsize);
int_out!(NonZeroI8, NonZeroI16, NonZeroI32, NonZeroI64, NonZeroI128, NonZeroIsize);
impl ScalarOut for bool {
    fn enc(&self, res: &mut J, _i: &OV) {
        res["b"] = json!(*self);
    }
}
impl ScalarOut for () {
    fn enc(&self, _res: &mut J, _i: &OV) {}
}
impl ScalarOut for String {
    fn enc(&self, res: &mut J, _i: &OV) {
        res["s"] = json!(self);
    }
}
impl ScalarOut for char {
    fn enc(&self, res: &mut J, _i: &OV) {
        res["s"] = json!(self.to_string());
    }
}

/// exact decimal text of the input number (independent of `as`)
fn exact_decimal(input: &OV) -> Option<String> {
    match input {
        OV::Int(x) => Some(x.to_string()),
        OV::Neg(x) => Some(x.to_string()),
        OV::Float(f) if f.is_finite() => Some(format!("{:.1100}", f)),
        _ => None,
    }
}
impl ScalarOut for f64 {
    fn enc(&self, res: &mut J, input: &OV) {
        // IEEE oracle: correctly rounded parse of the exact decimal expansion of the input
        let ok = match (exact_decimal(input), input) {
            (Some(txt), _) => txt.parse::<f64>().map(|e| e.to_bits() == self.to_bits()).unwrap_or(false),
            (None, OV::Float(f)) => (f.is_nan() && self.is_nan()) || f.to_bits() == self.to_bits(),
            _ => false,
        };
        res["fexact"] = json!(ok);
        res["s"] = json!(format!("{:e}", self));
    }
}
impl ScalarOut for f32 {
    fn enc(&self, res: &mut J, input: &OV) {
        let ok = match (exact_decimal(input), input) {
            (Some(txt), _) => txt.parse::<f32>().map(|e| e.to_bits() == self.to_bits()).unwrap_or(false),
            (None, OV::Float(f)) => (f.is_nan() && self.is_nan()) || (f.is_infinite() && self.is_infinite() && (*f > 0.0) == (*self > 0.0)),
            _ => false,
        };
        res["fexact"] = json!(ok);
        res["s"] = json!(format!("{:e}", self));
    }
}

pub fn ov_to_json(v: &OV) -> Option<J> {
    Some(match v {
        OV::Null => J::Null,
        OV::Poison => return None,
        OV::Bool(b) => json!(b),
        OV::Int(x) => json!(x),
        OV::Neg(x) if *x < 0 => json!(x),
        OV::Neg(_) => return None,
        OV::Float(f) => J::Number(serde_json::Number::from_f64(*f)?),
        OV::Str(s) => json!(s),
        OV::Seq(s) => J::Array(s.iter().map(ov_to_json).collect::<Option<Vec<_>>>()?),
        OV::Map(m) => {
            let mut o = serde_json::Map::new();
            for (k, v) in m {
                if o.contains_key(k) {
                    return None;
                }
                o.insert(k.clone(), ov_to_json(v)?);
            }
            J::Object(o)
        }
    })
}

fn finish_res<T: ScalarOut>(r: Result<T, CapErr>, input: &OV) -> J {
    let mut res = blank_res();
    match r {
        Ok(x) => {
            res["z"] = json!("ok");
            x.enc(&mut res, input);
        }
        Err(CapErr(j)) => {
            res["z"] = j["z"].clone();
            if let Some(a) = j.get("acc") {
                res["acc"] = a.clone();
            }
            if let Some(t) = j.get("text").and_then(|t| t.as_str()) {
                res["text"] = json!(t);
                res["nums"] = J::Array(digit_runs(t));
                res["zero"] = json!(t.contains("zero"));
                res["empty"] = json!(t.contains("empty"));
                if let OV::Str(s) = input {
                    res["has_str"] = json!(!s.is_empty() && t.contains(s.as_str()));
                }
            }
        }
    }
    res["nerr"] = json!(NERR.with(|c| c.get()));
    res
}

fn run_one<T: Deserr<CapErr> + ScalarOut>(input: &OV, src: &str) -> Option<J> {
    NERR.with(|c| c.set(0));
    let jv = if src == "ov" { None } else { Some(ov_to_json(input)?) };
    let r = crate::util::quiet_catch(|| match jv {
        None => deserr::deserialize::<T, OV, CapErr>(input.clone()),
        Some(j) => deserr::deserialize::<T, J, CapErr>(j),
    });
    Some(match r {
        Ok(r) => finish_res(r, input),
        Err(m) => {
            let mut res = blank_res();
            res["z"] = json!("panic");
            res["text"] = json!(m);
            res
        }
    })
}

pub const TARGETS: [&str; 30] = [
    "bool", "unit", "char", "String", "u8", "u16", "u32", "u64", "u128", "usize", "i8", "i16", "i32", "i64", "i128", "isize",
    "NonZeroU8", "NonZeroU16", "NonZeroU32", "NonZeroU64", "NonZeroU128", "NonZeroUsize",
    "NonZeroI8", "NonZeroI16", "NonZeroI32", "NonZeroI64", "NonZeroI128", "NonZeroIsize", "f32", "f64",
];

pub fn dispatch(ty: &str, input: &OV, src: &str) -> Option<J> {
    macro_rules! d {
        ($($name:literal => $t:ty),*) => {
            match ty { $($name => run_one::<$t>(input, src),)* _ => panic!("unknown scalar target {ty}") }
        };
    }
    d!("bool" => bool, "unit" => (), "char" => char, "String" => String,
       "u8" => u8, "u16" => u16, "u32" => u32, "u64" => u64, "u128" => u128, "usize" => usize,
       "i8" => i8, "i16" => i16, "i32" => i32, "i64" => i64, "i128" => i128, "isize" => isize,
       "NonZeroU8" => NonZeroU8, "NonZeroU16" => NonZeroU16, "NonZeroU32" => NonZeroU32, "NonZeroU64" => NonZeroU64,
       "NonZeroU128" => NonZeroU128, "NonZeroUsize" => NonZeroUsize,
       "NonZeroI8" => NonZeroI8, "NonZeroI16" => NonZeroI16, "NonZeroI32" => NonZeroI32, "NonZeroI64" => NonZeroI64,
       "NonZeroI128" => NonZeroI128, "NonZeroIsize" => NonZeroIsize, "f32" => f32, "f64" => f64)
}

/// value record (DScalar shape) of an OV scalar / container summary
pub fn value_rec(v: &OV) -> J {
    match v {
        OV::Null | OV::Poison => scalar_rec("null", false, 0, vec![0], "", 0),
        OV::Bool(b) => scalar_rec("bool", *b, 0, vec![0], "", 0),
        OV::Int(x) => {
            let s = signed_j(&x.to_string());
            json!({"t": "int", "b": false, "sg": s["sg"], "d": s["d"], "s": "", "n": 0})
        }
        OV::Neg(x) => {
            let s = signed_j(&x.to_string());
            json!({"t": "neg", "b": false, "sg": s["sg"], "d": s["d"], "s": "", "n": 0})
        }
        OV::Float(f) => scalar_rec("float", false, 0, vec![0], &format!("{:e}", f), 0),
        OV::Str(s) => scalar_rec("str", false, 0, vec![0], s, s.chars().count()),
        OV::Seq(s) => scalar_rec("seq", false, 0, vec![0], "", s.len()),
        OV::Map(m) => scalar_rec("map", false, 0, vec![0], "", m.len()),
    }
}

fn ov_of_rec(v: &J) -> OV {
    let digits: String = v["d"].as_array().unwrap().iter().map(|d| char::from(b'0' + d.as_u64().unwrap() as u8)).collect();
    let n = v["n"].as_u64().unwrap_or(0) as usize;
    match v["t"].as_str().unwrap() {
        "null" => OV::Null,
        "bool" => OV::Bool(v["b"].as_bool().unwrap()),
        "int" => OV::Int(digits.parse().unwrap()),
        "neg" => {
            let sg = v["sg"].as_i64().unwrap();
            let txt = if sg < 0 { format!("-{digits}") } else { digits };
            OV::Neg(txt.parse().unwrap())
        }
        "float" => OV::Float(v["s"].as_str().unwrap().parse().unwrap()),
        "str" => OV::Str(v["s"].as_str().unwrap().to_string()),
        "seq" => OV::Seq(vec![OV::Null; n]),
        "map" => OV::Map((0..n).map(|i| (format!("k{i}"), OV::Null)).collect()),
        t => panic!("bad value tag {t}"),
    }
}

fn emit_point(ty: &str, input: &OV, out: &mut Out) {
    for src in ["ov", "json"] {
        if let Some(res) = dispatch(ty, input, src) {
            out.emit(&json!({"e": "reset", "k": "point", "inp": {"ty": ty, "v": value_rec(input)}, "src": src, "res": res}));
        }
    }
}

/// key of one sweep observation: everything except the swept number itself.
/// (z, accepted list, other digit runs of the message, exact, message names the number, message says zero)
type Key = (String, String, String, bool, bool, bool);
fn sweep_key(res: &J, x: i128) -> Key {
    let z = res["z"].as_str().unwrap();
    let me = signed_j(&x.to_string());
    match z {
        "ok" => ("ok".into(), "[]".into(), "[]".into(), res["num"] == me || res["fexact"] == json!(true), false, false),
        "kind" => ("kind".into(), res["acc"].to_string(), "[]".into(), true, false, false),
        "msg" => {
            let nums = res["nums"].as_array().unwrap();
            let names = nums.iter().any(|n| *n == me);
            let mut others: Vec<J> = Vec::new();
            let mut removed = false;
            for n in nums {
                if !removed && *n == me {
                    removed = true;
                } else {
                    others.push(n.clone());
                }
            }
            ("msg".into(), "[]".into(), J::Array(others).to_string(), true, names, res["zero"] == json!(true))
        }
        o => (o.into(), "[]".into(), "[]".into(), false, false, false),
    }
}

fn sweep_type(lo: i64, hi: i64, ty: &str) -> Vec<J> {
    let mut evs = Vec::new();
    for (form, src) in [("int", "ov"), ("int", "json"), ("neg", "ov"), ("neg", "json")] {
        let mut cur: Option<(Key, i64, i64)> = None;
        let mut flush = |c: &Option<(Key, i64, i64)>| {
            if let Some((k, from, to)) = c {
                // a stretch never crosses zero; it is logged as sign, the digits of its end nearest to zero and small offsets
                // (x = sg * (base + k), k = kfrom..kto), so that stretches beyond 32 bits can be validated
                let (sg, base) = if *from >= 0 { (1, *from) } else { (-1, -*to) };
                evs.push(json!({"e": "reset", "k": "range", "inp": {"ty": ty, "form": form, "from": from.to_string(), "to": to.to_string(), "src": src},
                    "ty": ty, "form": form, "src": src, "sg": sg, "base": crate::ov::digits_of(&base.to_string()), "kfrom": 0, "kto": to - from, "cls": k.0,
                    "acc": serde_json::from_str::<J>(&k.1).unwrap(), "others": serde_json::from_str::<J>(&k.2).unwrap(),
                    "exact": k.3, "names_recv": k.4, "zero": k.5}));
            }
        };
        for x in lo..=hi {
            let input = match form {
                "int" => {
                    if x < 0 {
                        continue;
                    }
                    OV::Int(x as u64)
                }
                _ => {
                    if src == "json" && x >= 0 {
                        continue; // serde_json holds non-negative integers as u64
                    }
                    OV::Neg(x)
                }
            };
            let res = match dispatch(ty, &input, src) {
                Some(r) => r,
                None => continue,
            };
            let k = sweep_key(&res, x as i128);
            match &mut cur {
                Some((ck, from, to)) if *ck == k && *to + 1 == x && x - *from < 4000 && (x >= 0) == (*from >= 0) => *to = x,
                _ => {
                    flush(&cur);
                    cur = Some((k, x, x));
                }
            }
        }
        flush(&cur);
    }
    evs
}

fn sweep(lo: i64, hi: i64, types: &[&str], out: &mut Out) {
    // one thread per target (the error counter is thread-local); output in target order
    let results: Vec<Vec<J>> = std::thread::scope(|sc| {
        let hs: Vec<_> = types.iter().map(|ty| sc.spawn(move || sweep_type(lo, hi, ty))).collect();
        hs.into_iter().map(|h| h.join().unwrap()).collect()
    });
    for evs in results {
        for e in evs {
            out.emit(&e);
        }
    }
}

pub fn main(args: &[String]) {
    let mut out = Out::stdout();
    match args.first().map(|s| s.as_str()) {
        Some("replay") => {
            for rec in crate::util::read_ndjson_stdin() {
                if rec.get("form").is_some() {
                    // replay of a range event
                    let ty = rec["ty"].as_str().unwrap().to_string();
                    let num = |v: &J| v.as_i64().unwrap_or_else(|| v.as_str().unwrap().parse::<i64>().unwrap());
                    sweep(num(&rec["from"]), num(&rec["to"]), &[ty.as_str()], &mut out);
                } else {
                    emit_point(rec["ty"].as_str().unwrap(), &ov_of_rec(&rec["v"]), &mut out);
                }
            }
        }
        Some("sweep") => {
            let lo: i64 = args[1].parse().unwrap();
            let hi: i64 = args[2].parse().unwrap();
            sweep(lo, hi, &TARGETS, &mut out);
        }
        Some("random") => {
            let n: usize = args[1].parse().unwrap();
            let mut rng = Rng::from_env(0xC05);
            // double-rounding witnesses for u64/i64 -> f32 and ties
            let mut specials: Vec<OV> = Vec::new();
            for k in 25..64u32 {
                let base = 1u64 << k;
                let half = 1u64 << (k - 24);
                for m in [base + half, base + half + 1, base + half - 1, base + 3 * half, base + 3 * half + 1, base + 3 * half - 1] {
                    specials.push(OV::Int(m));
                    if m <= i64::MAX as u64 {
                        specials.push(OV::Neg(-(m as i64)));
                    }
                }
                if k >= 54 {
                    let dh = 1u64 << (k - 53);
                    specials.push(OV::Int(base + dh));
                    specials.push(OV::Int(base + dh + 1));
                    specials.push(OV::Int(base + 3 * dh));
                }
            }
            for f in [0.0, -0.0, 5e-324, 2.2250738585072014e-308, 1e-45, 1.401298464324817e-45, 7.006492321624085e-46, 3.4028234663852886e38,
                      3.4028235677973366e38, 3.4028236e38, 1e39, 1.7976931348623157e308, 0.1, 16777217.0, 16777216.0, 1.0000000596046448,
                      f64::NAN, f64::INFINITY, f64::NEG_INFINITY, -1e308, 9007199254740993.0, 1.5, -2.5] {
                specials.push(OV::Float(f));
            }
            for s in ["", "a", "é", "😀", "ab", "a😀", "€€€", "abc def", "1", "12", "-5", " "] {
                specials.push(OV::Str(s.to_string()));
            }
            for v in &specials {
                for ty in TARGETS {
                    emit_point(ty, v, &mut out);
                }
            }
            for _ in 0..n {
                let v = match rng.below(6) {
                    0 => OV::Int(rng.next()),
                    1 => OV::Int(rng.next() >> rng.below(64)),
                    2 => OV::Neg(rng.next() as i64),
                    3 => OV::Neg((rng.next() as i64) >> rng.below(64)),
                    4 => OV::Float(f64::from_bits(rng.next())),
                    _ => {
                        let pool = ['a', 'é', '€', '😀', '0', ' '];
                        let len = rng.below(4);
                        OV::Str((0..len).map(|_| *rng.pick(&pool)).collect())
                    }
                };
                for ty in TARGETS {
                    emit_point(ty, &v, &mut out);
                }
            }
        }
        _ => panic!("usage: dh scalar replay|sweep LO HI|random N"),
    }
    out.flush();
}
