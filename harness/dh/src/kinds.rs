//! C17: call the real value_kinds_description_json / _query_param on given / random kind lists.
use crate::util::{Out, Rng};
use deserr::errors::json::value_kinds_description_json;
use deserr::errors::query_params::value_kinds_description_query_param;
use deserr::ValueKind;
use serde_json::{json, Value as J};

pub const ALL: [ValueKind; 8] = [
    ValueKind::Null,
    ValueKind::Boolean,
    ValueKind::Integer,
    ValueKind::NegativeInteger,
    ValueKind::Float,
    ValueKind::String,
    ValueKind::Sequence,
    ValueKind::Map,
];

pub fn kind_of_name(s: &str) -> ValueKind {
    *ALL.iter().find(|k| k.to_string() == s).unwrap_or_else(|| panic!("unknown kind {s}"))
}

fn describe(kinds: &[ValueKind]) -> String {
    crate::util::quiet_catch(|| value_kinds_description_json(kinds)).unwrap_or_else(|m| format!("<panic: {m}>"))
}

/// the items of a phrase joined as 'a', 'a or b', 'a, b, or c' (the specification re-joins them and compares with the phrase)
fn items_of(phrase: &str) -> Vec<String> {
    if let Some(i) = phrase.rfind(", or ") {
        let mut v: Vec<String> = phrase[..i].split(", ").map(|s| s.to_string()).collect();
        v.push(phrase[i + 5..].to_string());
        v
    } else if let Some(i) = phrase.find(" or ") {
        vec![phrase[..i].to_string(), phrase[i + 4..].to_string()]
    } else {
        vec![phrase.to_string()]
    }
}

fn run(kinds: &[ValueKind], out: &mut Out) {
    let names: Vec<String> = kinds.iter().map(|k| k.to_string()).collect();
    let phrase = describe(kinds);
    out.emit(&json!({
        "e": "reset",
        "inp": {"kinds": names},
        "items": items_of(&phrase),
        "out": phrase,
        "qout": crate::util::quiet_catch(|| value_kinds_description_query_param(kinds)).unwrap_or_else(|m| format!("<panic: {m}>")),
    }));
}

/// the vocabulary and the order of the implementation, observed once: the phrase of every single kind, of the empty list, and every
/// ordered pair of items that occurs in the phrase of one of the 256 subsets (presented in declaration order)
fn probe(out: &mut Out) {
    let mut names = serde_json::Map::new();
    for k in ALL {
        names.insert(k.to_string(), J::String(describe(&[k])));
    }
    let mut pairs: Vec<(String, String)> = vec![];
    for mask in 1u32..256 {
        let set: Vec<ValueKind> = (0..8).filter(|b| mask & (1 << b) != 0).map(|b| ALL[b]).collect();
        let it = items_of(&describe(&set));
        for i in 0..it.len() {
            for j in i + 1..it.len() {
                let p = (it[i].clone(), it[j].clone());
                if !pairs.contains(&p) {
                    pairs.push(p);
                }
            }
        }
    }
    out.emit(&json!({"e": "probe", "names": names, "empty": describe(&[]), "pairs": pairs.iter().map(|(a, b)| json!([a, b])).collect::<Vec<_>>()}));
}

pub fn main(args: &[String]) {
    let mut out = Out::stdout();
    match args.first().map(|s| s.as_str()) {
        Some("replay") => {
            for rec in crate::util::read_ndjson_stdin() {
                let ks: Vec<ValueKind> = rec["kinds"].as_array().unwrap().iter().map(|k| kind_of_name(k.as_str().unwrap())).collect();
                run(&ks, &mut out);
            }
        }
        // every subset of the 8 kinds in PERMS random arrangements with random repetitions
        Some("subsets") => {
            let perms: usize = args[1].parse().unwrap();
            let mut rng = Rng::from_env(0xC17);
            for mask in 0u32..256 {
                let set: Vec<ValueKind> = (0..8).filter(|b| mask & (1 << b) != 0).map(|b| ALL[b]).collect();
                for _ in 0..perms {
                    let mut v = set.clone();
                    // repetitions
                    if !set.is_empty() {
                        for _ in 0..rng.below(4) {
                            v.push(*rng.pick(&set));
                        }
                    }
                    // Fisher-Yates
                    for i in (1..v.len()).rev() {
                        let j = rng.below(i as u64 + 1) as usize;
                        v.swap(i, j);
                    }
                    run(&v, &mut out);
                }
            }
        }
        Some("random") => {
            let n: usize = args[1].parse().unwrap();
            let maxlen: u64 = args[2].parse().unwrap();
            let mut rng = Rng::from_env(0xC170);
            // one buffer, overwritten in place for every list: the phrase may depend on nothing but the kinds in the slice it is given
            // (not on what the same memory held at an earlier call)
            let mut v: Vec<ValueKind> = Vec::with_capacity(maxlen as usize + 1);
            for _ in 0..n {
                let len = rng.below(maxlen + 1);
                v.clear();
                v.extend((0..len).map(|_| *rng.pick(&ALL)));
                run(&v, &mut out);
            }
        }
        Some("probe") => probe(&mut out),
        _ => panic!("usage: dh kinds replay|subsets PERMS|random N MAXLEN|probe"),
    }
    out.flush();
}
#[allow(dead_code)]
fn _unused(_: J) {}
