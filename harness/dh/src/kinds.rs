//! C17: call the real value_kinds_description_json / _query_param on given / random kind lists.
use crate::util::{Out, Rng};
use deserr::errors::json::value_kinds_description_json;
use deserr::errors::query_params::value_kinds_description_query_param;
use deserr::ValueKind;
use serde_json::{json, Value as J};

pub const ALL: [ValueKind; 8] = [
    ValueKind::Null,
    ValueKind::Boolean,
    ValueKind::Integer,
    ValueKind::NegativeInteger,
    ValueKind::Float,
    ValueKind::String,
    ValueKind::Sequence,
    ValueKind::Map,
];

pub fn kind_of_name(s: &str) -> ValueKind {
    *ALL.iter().find(|k| k.to_string() == s).unwrap_or_else(|| panic!("unknown kind {s}"))
}

fn run(kinds: &[ValueKind], out: &mut Out) {
    let names: Vec<String> = kinds.iter().map(|k| k.to_string()).collect();
    out.emit(&json!({
        "e": "reset",
        "inp": {"kinds": names},
        "out": crate::util::quiet_catch(|| value_kinds_description_json(kinds)).unwrap_or_else(|m| format!("<panic: {m}>")),
        "qout": crate::util::quiet_catch(|| value_kinds_description_query_param(kinds)).unwrap_or_else(|m| format!("<panic: {m}>")),
    }));
}

pub fn main(args: &[String]) {
    let mut out = Out::stdout();
    match args.first().map(|s| s.as_str()) {
        Some("replay") => {
            for rec in crate::util::read_ndjson_stdin() {
                let ks: Vec<ValueKind> = rec["kinds"].as_array().unwrap().iter().map(|k| kind_of_name(k.as_str().unwrap())).collect();
                run(&ks, &mut out);
            }
        }
        // every subset of the 8 kinds in PERMS random arrangements with random repetitions
        Some("subsets") => {
            let perms: usize = args[1].parse().unwrap();
            let mut rng = Rng::from_env(0xC17);
            for mask in 0u32..256 {
                let set: Vec<ValueKind> = (0..8).filter(|b| mask & (1 << b) != 0).map(|b| ALL[b]).collect();
                for _ in 0..perms {
                    let mut v = set.clone();
                    // repetitions
                    if !set.is_empty() {
                        for _ in 0..rng.below(4) {
                            v.push(*rng.pick(&set));
                        }
                    }
                    // Fisher-Yates
                    for i in (1..v.len()).rev() {
                        let j = rng.below(i as u64 + 1) as usize;
                        v.swap(i, j);
                    }
                    run(&v, &mut out);
                }
            }
        }
        Some("random") => {
            let n: usize = args[1].parse().unwrap();
            let maxlen: u64 = args[2].parse().unwrap();
            let mut rng = Rng::from_env(0xC170);
            for _ in 0..n {
                let len = rng.below(maxlen + 1);
                let v: Vec<ValueKind> = (0..len).map(|_| *rng.pick(&ALL)).collect();
                run(&v, &mut out);
            }
        }
        _ => panic!("usage: dh kinds replay|subsets PERMS|random N MAXLEN"),
    }
    out.flush();
}
#[allow(dead_code)]
fn _unused(_: J) {}
