#![allow(non_snake_case, dead_code)]
//! `dh` - conformance harness for the deserr TLA+ specifications.
//! Every sub-command drives the real deserr code and writes an ndjson event trace on stdout
//! (impl -> spec), optionally from replay records produced by TLC (spec -> impl) on stdin.
mod bridge;
mod core;
mod dym;
mod enc;
#[rustfmt::skip]
#[allow(clippy::all)]
mod gen_cat {
    include!(concat!(env!("OUT_DIR"), "/gen_cat.rs"));
}
mod kinds;
mod ov;
mod scalar;
mod traits;
mod ptr;
mod rt;
mod util;

fn main() {
    let args: Vec<String> = std::env::args().skip(1).collect();
    let rest = if args.len() > 1 { &args[1..] } else { &[][..] };
    match args.first().map(|s| s.as_str()) {
        Some("ptr") => ptr::main(rest),
        Some("kinds") => kinds::main(rest),
        Some("dym") => dym::main(rest),
        Some("scalar") => scalar::main(rest),
        Some("bridge") => bridge::main(rest),
        Some("core") => core::main(rest),
        Some("traits") => traits::main(rest),
        _ => {
            eprintln!("usage: dh <ptr|kinds|dym|scalar|bridge|core> ...");
            std::process::exit(2);
        }
    }
}
