//! `hh` - conformance harness for the HTTP extractors (C20).  For every request it runs
//!   (a) the deserr extractor (AwebJson / AwebQueryParameter / AxumJson), and
//!   (b) the framework's own extractor of a serde_json::Value followed by deserr::deserialize,
//! on two identically built requests, and logs what a client would observe in both cases.
#![allow(dead_code)]
use actix_web::body::MessageBody;
use actix_web::test::TestRequest;
use actix_web::web::{Json as AJson, JsonConfig, Query as AQuery};
use actix_web::{FromRequest as AFromRequest, HttpResponse, ResponseError};
use axum::extract::FromRequest as XFromRequest;
use axum::response::IntoResponse;
use deserr::actix_web::{AwebJson, AwebQueryParameter};
use deserr::axum::AxumJson;
use deserr::errors::JsonError;
use deserr::{DeserializeError, Deserr, ErrorKind, IntoValue, MergeWithError, ValuePointerRef};
use futures::executor::block_on;
use serde_json::{json, Value as J};
use std::io::{BufRead, Write};
use std::ops::ControlFlow;

// ------------------------------------------------------------------------------------ target types
#[derive(Debug, PartialEq, Deserr)]
#[deserr(deny_unknown_fields)]
pub struct Doc {
    name: String,
    #[deserr(default)]
    age: Option<u8>,
    #[deserr(default)]
    tags: Vec<String>,
}

#[derive(Debug, PartialEq, Deserr)]
pub struct Outer {
    inner: Doc,
    #[deserr(default)]
    list: Vec<u8>,
}

#[derive(Debug, PartialEq, Deserr)]
#[deserr(deny_unknown_fields, rename_all = camelCase)]
pub struct Params {
    q: String,
    #[deserr(default)]
    page_size: Option<String>,
}

// ------------------------------------------------------------------------------------ a second error type
/// A user error type with its own HTTP rendering (status 422, body "api:" + message).
#[derive(Debug)]
pub struct ApiErr(String);
impl std::fmt::Display for ApiErr {
    fn fmt(&self, f: &mut std::fmt::Formatter<'_>) -> std::fmt::Result {
        write!(f, "{}", self.0)
    }
}
impl DeserializeError for ApiErr {
    fn error<V: IntoValue>(_s: Option<Self>, e: ErrorKind<V>, l: ValuePointerRef) -> ControlFlow<Self, Self> {
        let m = match JsonError::error::<V>(None, e, l) {
            ControlFlow::Break(x) | ControlFlow::Continue(x) => x.to_string(),
        };
        ControlFlow::Break(ApiErr(m))
    }
}
impl MergeWithError<ApiErr> for ApiErr {
    fn merge(_s: Option<Self>, o: ApiErr, _l: ValuePointerRef) -> ControlFlow<Self, Self> {
        ControlFlow::Break(o)
    }
}
impl ResponseError for ApiErr {
    fn status_code(&self) -> actix_web::http::StatusCode {
        actix_web::http::StatusCode::UNPROCESSABLE_ENTITY
    }
    fn error_response(&self) -> HttpResponse<actix_web::body::BoxBody> {
        actix_web::HttpResponseBuilder::new(self.status_code()).content_type("application/x-api").body(format!("api:{}", self.0))
    }
}
impl IntoResponse for ApiErr {
    fn into_response(self) -> axum::response::Response {
        (http::StatusCode::UNPROCESSABLE_ENTITY, [("content-type", "application/x-api")], format!("api:{}", self.0)).into_response()
    }
}

// ------------------------------------------------------------------------------------ outcomes
fn rej(status: u16, ctype: &str, body: &[u8]) -> J {
    json!({"ok": false, "val": "", "status": status, "ctype": ctype, "body": String::from_utf8_lossy(body)})
}
fn acc(val: String) -> J {
    json!({"ok": true, "val": val, "status": 0, "ctype": "", "body": ""})
}

fn actix_rej(err: actix_web::Error) -> J {
    let resp: HttpResponse = err.error_response();
    let status = resp.status().as_u16();
    let ctype = resp.headers().get("content-type").map(|v| v.to_str().unwrap_or("").to_string()).unwrap_or_default();
    let body = resp.into_body().try_into_bytes().map(|b| b.to_vec()).unwrap_or_default();
    rej(status, &ctype, &body)
}
fn actix_err_rendered<E: ResponseError>(e: &E) -> J {
    let resp = e.error_response();
    let status = resp.status().as_u16();
    let ctype = resp.headers().get("content-type").map(|v| v.to_str().unwrap_or("").to_string()).unwrap_or_default();
    let body = resp.into_body().try_into_bytes().map(|b| b.to_vec()).unwrap_or_default();
    rej(status, &ctype, &body)
}
fn axum_resp(resp: axum::response::Response) -> J {
    let status = resp.status().as_u16();
    let ctype = resp.headers().get("content-type").map(|v| v.to_str().unwrap_or("").to_string()).unwrap_or_default();
    let body = block_on(axum::body::to_bytes(resp.into_body(), usize::MAX)).map(|b| b.to_vec()).unwrap_or_default();
    rej(status, &ctype, &body)
}

fn json_config(cfg: &str) -> Option<JsonConfig> {
    match cfg {
        "default" => None,
        "explicit" => Some(JsonConfig::default()),
        "limit32" => Some(JsonConfig::default().limit(32)),
        "anytype" => Some(JsonConfig::default().content_type(|_| true).content_type_required(false)),
        "handler" => Some(JsonConfig::default().error_handler(|e, _req| {
            actix_web::error::InternalError::from_response(e, HttpResponse::ImATeapot().body("custom handler")).into()
        })),
        o => panic!("unknown config {o}"),
    }
}

fn actix_request(cfg: &str, ctype: Option<&str>, body: &str) -> (actix_web::HttpRequest, actix_web::dev::Payload) {
    let mut req = TestRequest::post().uri("/x");
    if let Some(c) = json_config(cfg) {
        req = req.app_data(c);
    }
    if let Some(ct) = ctype {
        req = req.insert_header(("content-type", ct));
    }
    req.insert_header(("content-length", body.len().to_string())).set_payload(body.to_owned()).to_http_parts()
}

fn axum_request(ctype: Option<&str>, body: &str) -> axum::extract::Request {
    let mut b = http::Request::builder().method("POST").uri("/x");
    if let Some(ct) = ctype {
        b = b.header("content-type", ct);
    }
    b.body(axum::body::Body::from(body.to_owned())).unwrap()
}

/// one request through one framework for target T and error type E
fn run_actix<T, E>(cfg: &str, ctype: Option<&str>, body: &str) -> (J, J, J)
where
    T: Deserr<E> + std::fmt::Debug,
    E: DeserializeError + ResponseError + std::fmt::Display + 'static,
{
    let (req, mut pl) = actix_request(cfg, ctype, body);
    let ext = match block_on(AwebJson::<T, E>::from_request(&req, &mut pl)) {
        Ok(x) => acc(format!("{:?}", x.into_inner())),
        Err(e) => actix_rej(e),
    };
    let (req, mut pl) = actix_request(cfg, ctype, body);
    let (fw, de) = match block_on(AJson::<J>::from_request(&req, &mut pl)) {
        Err(e) => (actix_rej(e), json!({"ran": false, "ok": false, "val": "", "msg": "", "rendered": rej(0, "", b"")})),
        Ok(AJson(v)) => (
            acc(v.to_string()),
            match deserr::deserialize::<T, J, E>(v) {
                Ok(x) => json!({"ran": true, "ok": true, "val": format!("{:?}", x), "msg": "", "rendered": rej(0, "", b"")}),
                Err(e) => json!({"ran": true, "ok": false, "val": "", "msg": e.to_string(), "rendered": actix_err_rendered(&e)}),
            },
        ),
    };
    (fw, de, ext)
}

fn run_actix_query<T, E>(query: &str) -> (J, J, J)
where
    T: Deserr<E> + std::fmt::Debug,
    E: DeserializeError + ResponseError + std::fmt::Display + 'static,
{
    let uri = format!("/x?{query}");
    let (req, mut pl) = TestRequest::get().uri(&uri).to_http_parts();
    let ext = match block_on(AwebQueryParameter::<T, E>::from_request(&req, &mut pl)) {
        Ok(x) => acc(format!("{:?}", x.into_inner())),
        Err(e) => actix_rej(e),
    };
    let (req, _pl) = TestRequest::get().uri(&uri).to_http_parts();
    let (fw, de) = match AQuery::<J>::from_query(req.query_string()) {
        Err(e) => (actix_rej(e.into()), json!({"ran": false, "ok": false, "val": "", "msg": "", "rendered": rej(0, "", b"")})),
        Ok(AQuery(v)) => (
            acc(v.to_string()),
            match deserr::deserialize::<T, J, E>(v) {
                Ok(x) => json!({"ran": true, "ok": true, "val": format!("{:?}", x), "msg": "", "rendered": rej(0, "", b"")}),
                Err(e) => json!({"ran": true, "ok": false, "val": "", "msg": e.to_string(), "rendered": actix_err_rendered(&e)}),
            },
        ),
    };
    (fw, de, ext)
}

fn run_axum<T, E>(ctype: Option<&str>, body: &str) -> (J, J, J)
where
    T: Deserr<E> + std::fmt::Debug,
    E: DeserializeError + IntoResponse + std::fmt::Display + 'static,
{
    let ext = match block_on(AxumJson::<T, E>::from_request(axum_request(ctype, body), &())) {
        Ok(x) => acc(format!("{:?}", x.into_inner())),
        Err(r) => axum_resp(r.into_response()),
    };
    let (fw, de) = match block_on(axum::Json::<J>::from_request(axum_request(ctype, body), &())) {
        Err(r) => (axum_resp(r.into_response()), json!({"ran": false, "ok": false, "val": "", "msg": "", "rendered": rej(0, "", b"")})),
        Ok(axum::Json(v)) => (
            acc(v.to_string()),
            match deserr::deserialize::<T, J, E>(v) {
                Ok(x) => json!({"ran": true, "ok": true, "val": format!("{:?}", x), "msg": "", "rendered": rej(0, "", b"")}),
                Err(e) => {
                    let msg = e.to_string();
                    json!({"ran": true, "ok": false, "val": "", "msg": msg, "rendered": axum_resp(e.into_response())})
                }
            },
        ),
    };
    (fw, de, ext)
}

fn dispatch(r: &J) -> (J, J, J) {
    let fw = r["fw"].as_str().unwrap();
    let ty = r["ty"].as_str().unwrap();
    let et = r["etype"].as_str().unwrap();
    let cfg = r["cfg"].as_str().unwrap_or("default");
    let ctype = r["ctype"].as_str().filter(|s| *s != "none");
    let body = r["body"].as_str().unwrap_or("");
    macro_rules! go {
        ($T:ty, $E:ty) => {
            match fw {
                "actix" => run_actix::<$T, $E>(cfg, ctype, body),
                "axum" => run_axum::<$T, $E>(ctype, body),
                "actix_query" => run_actix_query::<$T, $E>(body),
                o => panic!("unknown framework {o}"),
            }
        };
    }
    match (ty, et) {
        ("Doc", "json") => go!(Doc, JsonError),
        ("Doc", "api") => go!(Doc, ApiErr),
        ("Outer", "json") => go!(Outer, JsonError),
        ("Outer", "api") => go!(Outer, ApiErr),
        ("Params", "json") => go!(Params, JsonError),
        ("Params", "api") => go!(Params, ApiErr),
        ("Value", "json") => go!(J, JsonError),
        ("Value", "api") => go!(J, ApiErr),
        o => panic!("unknown target/error {o:?}"),
    }
}

fn main() {
    let stdin = std::io::stdin();
    let out = std::io::stdout();
    let mut out = std::io::BufWriter::new(out.lock());
    for line in stdin.lock().lines() {
        let line = line.unwrap();
        if line.trim().is_empty() {
            continue;
        }
        let r: J = serde_json::from_str(&line).expect("bad request record");
        let (fw, de, ext) = dispatch(&r);
        let eparams = match r["etype"].as_str().unwrap() {
            "json" => json!({"status": 400, "prefix": ""}),
            _ => json!({"status": 422, "prefix": "api:"}),
        };
        serde_json::to_writer(&mut out, &json!({"e": "reset", "inp": r, "fwres": fw, "deser": de, "ext": ext, "eparams": eparams})).unwrap();
        out.write_all(b"\n").unwrap();
    }
    out.flush().unwrap();
}
