"""Type-directed payload generation for the core machine (used by the conformance drivers and to
build the input universe of the TLC model-checking configs)."""
import itertools, json, random, struct
import catalogue as C
import gen_catalogue as G


# ------------------------------------------------------------------ value records [t,b,h,sg,d,s,n,e]
def V(t, **kw):
    d = {"t": t, "b": False, "h": "", "sg": 0, "d": [0], "s": "", "n": 0, "e": []}
    d.update(kw)
    return d


def vnull(): return V("null")
def vbool(b): return V("bool", b=b)
def vint(n): return V("int", sg=0 if n == 0 else 1, d=[int(c) for c in str(n)])
def vneg(n): return V("neg", sg=0 if n == 0 else (1 if n > 0 else -1), d=[int(c) for c in str(abs(n))])
def vnum(n): return vint(n) if n >= 0 else vneg(n)
def vfloat(f): return V("float", s="%016x" % struct.unpack(">Q", struct.pack(">d", f))[0])
def vstr(s): return V("str", s=s, n=len(s))
def vseq(es): return V("seq", e=list(es), n=len(es))
def vmap(ms): return V("map", e=[{"k": k, "v": v} for k, v in ms], n=len(ms))


RANGES = {"u8": (0, 255), "u16": (0, 65535), "u32": (0, 2**32 - 1), "u64": (0, 2**64 - 1), "usize": (0, 2**64 - 1),
          "i8": (-128, 127), "i16": (-2**15, 2**15 - 1), "i32": (-2**31, 2**31 - 1), "i64": (-2**63, 2**63 - 1), "isize": (-2**63, 2**63 - 1),
          "NonZeroU8": (1, 255), "NonZeroI8": (-128, 127), "u128": (0, 2**64 - 1), "i128": (-2**63, 2**64 - 1),
          "NonZeroU16": (1, 65535), "NonZeroU64": (1, 2**64 - 1), "NonZeroI64": (-2**63, 2**63 - 1), "NonZeroI128": (-2**63, 2**64 - 1)}

KEYPOOL = {"String": ["a", "b", "k", "key", "", "01", " a", "a "], "u8": ["0", "1", "7", "255"], "i32": ["-1", "0", "5", "12"],
           "bool": ["true", "false"], "char": ["a", "b", "z", " "]}
BADKEYS = {"u8": ["x", "256", "-1", "", "1x", "a\"b", "back\\slash", "1 ", " 1"], "i32": ["a", "9999999999", "", "q\"q", " 5"],
           "bool": ["yes", "True", "", "t\"rue", " true"], "char": ["ab", "", "\"\"", "a "], "String": []}
COLLIDE = {"u8": [("1", "01"), ("7", "+7")], "i32": [("5", "+5"), ("0", "-0")]}


def words(ident):
    """word boundaries the way convert_case cuts an identifier (only used to offer plausible keys; the specification decides)"""
    out, cur = [], ""
    for i, c in enumerate(ident):
        if c == "_":
            if cur:
                out.append(cur)
            cur = ""
            continue
        if cur:
            a = ident[i - 1]
            nxt = ident[i + 1] if i + 1 < len(ident) else ""
            boundary = (a.islower() and c.isupper()) or (a.isdigit() and c.isalpha()) or (a.isalpha() and c.isdigit()) or \
                       (a.isupper() and c.isupper() and nxt.islower())
            if boundary:
                out.append(cur)
                cur = ""
        cur += c
    if cur:
        out.append(cur)
    return out


def camel(ident):
    ws = words(ident)
    if not ws:
        return ident
    return ws[0].lower() + "".join(w[:1].upper() + w[1:].lower() for w in ws[1:])


def effkey(d, f, v=None):
    """the key a field is read from (only used to aim payloads; the specification decides): rename, else the identifier under the
    rename_all of the struct / of the variant itself"""
    if f.get("rename") is not None:
        return f["rename"]
    rule = (v or {}).get("rename_all") if d["kind"] == "enum" else d.get("rename_all")
    i = G.unraw(f["ident"])
    return camel(i) if rule == "camelCase" else (i.lower() if rule == "lowercase" else i)


def transposed(s):
    """a near-miss one adjacent transposition away (what a did-you-mean suggestion is for)"""
    if len(s) < 2:
        return s + "q"
    i = len(s) // 2 - 1 if len(s) > 2 else 0
    t = s[:i] + s[i + 1] + s[i] + s[i + 2:]
    return t if t != s else s + "q"


def eff_key_guess(f, ra):
    """keys the generator tries for a field: the generator does NOT decide which is right (the spec does);
    it just offers the identifier, its camelCase / lowercase forms, the rename and near-misses."""
    ident = G.unraw(f["ident"])
    cands = [ident, camel(ident), ident.lower(), ident.upper(), ident + "x", ident[:-1] if len(ident) > 1 else ident + "_", transposed(ident),
             transposed(camel(ident))]
    if f["rename"] is not None:
        cands.append(f["rename"])
        cands.append(f["rename"].upper())
    # matching is exact: a key that only differs by surrounding white space is another key
    base = f["rename"] if f["rename"] is not None else ident
    cands += [" " + base, base + " ", "\t" + camel(ident)]
    return cands


class PayloadGen:
    def __init__(self, rng, extra_defs=(), golden=False, numbers=None):
        self.rng = rng
        self.defs = {d["name"]: d for d in list(C.DEFS) + list(extra_defs)}
        # golden: every field present under its effective key, the right tag, no stray member, nothing null (with p = 0 the payload
        # is meant to succeed); numbers: the integer leaves to use (4 passes every function of the catalogue, 2 is rejected by the
        # `validate` functions only, 3 by the conversions)
        self.golden = golden
        self.numbers = numbers

    # ---- valid-ish values with a per-node fault probability p --------------------------------
    def wrong(self, avoid):
        pool = [vnull(), vbool(True), vint(3), vneg(-4), vfloat(1.5), vstr("x"), vseq([]), vseq([vint(1)]), vmap([]), vmap([("a", vint(1))]),
                vint(2**64 - 1), vseq([vint(2**63), vneg(-2**63)]), vstr("quo\"te"),
                # floats without a fractional part are floats; values whose JSON text is long are quoted in full
                vfloat(3.0), vfloat(-2.0), vstr("long " + "x" * 130), vseq([vint(10000 + i) for i in range(24)])]
        pool = [v for v in pool if v["t"] not in avoid]
        return self.rng.choice(pool)

    def scalar(self, name, p):
        r = self.rng
        if name == "bool":
            return vbool(r.random() < 0.5) if r.random() >= p else self.wrong({"bool"})
        if name == "unit":
            return vnull() if r.random() >= p else self.wrong({"null"})
        if name == "String":
            return vstr(r.choice(["", "a", "hello", "é", "a,b", "x!", "why?"])) if r.random() >= p else self.wrong({"str"})
        if name == "char":
            if r.random() >= p: return vstr(r.choice(["a", "é", "z"]))
            return r.choice([vstr(""), vstr("ab"), vstr("abc"), vstr("ñu"), vstr("a" * 63 + "é" + "b"), vstr("é" * 40), self.wrong({"str"})])
        if name in ("f32", "f64"):
            if r.random() >= p: return r.choice([vfloat(1.5), vint(3), vneg(-2), vfloat(-0.0)])
            return self.wrong({"float", "int", "neg"})
        lo, hi = RANGES[name]
        if r.random() >= p:
            x = r.choice(self.numbers) if self.numbers else r.choice([lo, hi, 0, 1, 2, 5, r.randint(lo, hi)])
            if name.startswith("NonZero") and x == 0: x = 1
            return vnum(x)
        kind = r.random()
        # a Value can only carry u64 / i64: targets as wide as that cannot be overflowed
        if kind < 0.35 and hi + 45 <= 2**64 - 1: return vnum(hi + r.choice([1, 2, 45]))
        if kind < 0.6 and lo < 0 and lo - 7 >= -2**63: return vnum(lo - r.choice([1, 7]))
        if kind < 0.7 and name.startswith("NonZero"): return vint(0)
        if kind < 0.8 and lo == 0: return vneg(-1)
        return self.wrong({"int", "neg"} if lo < 0 else {"int"})

    def gen(self, ty, p, depth=0):
        r = self.rng
        k = ty[0]
        if k == "scalar":
            return self.scalar(ty[1], p)
        if k in ("vec", "hset", "bset"):
            if r.random() < p * 0.5: return self.wrong({"seq"})
            n = r.choice([0, 1, 2, 2, 3])
            return vseq([self.gen(ty[1], p, depth + 1) for _ in range(n)])
        if k == "arr":
            if r.random() < p * 0.4: return self.wrong({"seq"})
            n = ty[2] if r.random() >= p * 0.6 else max(0, ty[2] + r.choice([-1, 1, 2]))
            return vseq([self.gen(ty[1], p, depth + 1) for _ in range(n)])
        if k == "tup":
            if r.random() < p * 0.4: return self.wrong({"seq"})
            ts = ty[1]
            if r.random() < p * 0.6:
                n = max(0, len(ts) + r.choice([-1, 1]))
                return vseq([self.gen(ts[i % len(ts)], p, depth + 1) for i in range(n)])
            return vseq([self.gen(t, p, depth + 1) for t in ts])
        if k == "opt":
            if r.random() < 0.3 and not self.golden: return vnull()
            return self.gen(ty[1], p, depth + 1)
        if k == "box":
            return self.gen(ty[1], p, depth + 1)
        if k in ("hmap", "bmap"):
            if r.random() < p * 0.4: return self.wrong({"map"})
            n = r.choice([0, 1, 2, 3])
            keys = []
            for _ in range(n):
                if r.random() < p and BADKEYS[ty[1]]:
                    keys.append(r.choice(BADKEYS[ty[1]]))
                else:
                    keys.append(r.choice(KEYPOOL[ty[1]]))
            keys = list(dict.fromkeys(keys))   # distinct strings (duplicates are a separate driver)
            return vmap([(kk, self.gen(ty[2], p, depth + 1)) for kk in keys])
        if k == "cs":
            if r.random() < p * 0.5: return self.wrong({"str"})
            if ty[1] == "u8":
                return vstr(r.choice(["", "1", "1,2", "1,,2", ",3,", "255"] if r.random() >= p else ["x", "1,x", "256", "1, 2", "1,x,3,300", "y,z"]))
            return vstr(r.choice(["", "a", "a,b", "a,,b", ",", "a,b,c"]))
        if k == "jvalue" and self.golden:
            return r.choice([vnull(), vint(1), vneg(-3), vfloat(0.5), vstr("s"), vseq([vint(1), vseq([])]), vmap([("a", vmap([("b", vnull())]))]),
                             vmap([("b", vint(1)), ("a", vstr("x")), ("c", vseq([vmap([("z", vnull()), ("y", vbool(True))])]))])])
        if k == "jvalue":
            return r.choice([vnull(), vint(1), vneg(-3), vfloat(0.5), vstr("s"), vseq([vint(1), vseq([])]), vmap([("a", vmap([("b", vnull())]))]),
                             vint(2**64 - 1), vneg(-2**63),
                             vmap([("b", vint(1)), ("a", vstr("x")), ("c", vseq([vmap([("z", vnull()), ("y", vbool(True))])]))]),      # members not in key order
                             vmap([("a", vfloat(float("inf"))), ("b", vint(1)), ("c", vfloat(float("nan")))]),
                             vseq([vfloat(float("-inf")), vmap([("k", vfloat(float("nan"))), ("l", vseq([vfloat(float("inf"))]))])]),
                             vmap([("m", vmap([("x", vfloat(float("nan")))])), ("n", vfloat(1.5))])])
        if k == "phantom":
            return r.choice([vnull(), vint(1), vseq([])])
        if k == "ref":
            return self.gen_def(self.defs[ty[1]], p, depth)
        raise ValueError(ty)

    def fields_members(self, fields, ra_hint, p, depth, deny):
        r = self.rng
        ms = []
        if self.golden:
            d0 = {"kind": "struct", "rename_all": ra_hint}
            return [(effkey(d0, f), self.gen(f["from"]["ty"] if f.get("from") else f["ty"], p, depth + 1)) for f in fields if not f.get("skip")]
        for f in fields:
            keys = eff_key_guess(f, ra_hint)
            present = r.random() < 0.8
            if present:
                # the plausible keys come first (identifier, camelCase, lowercase, rename); sometimes a near-miss
                kk = r.choice(keys[:3] + ([f["rename"]] * 3 if f["rename"] is not None else [keys[0]])) if r.random() >= p * 0.5 else r.choice(keys)
                val = vnull() if r.random() < 0.08 else self.gen(f["from"]["ty"] if f.get("from") else f["ty"], p, depth + 1)
                ms.append((kk, val))
        if r.random() < 0.35:
            ms.append((r.choice(["zz", "extra", "A", "sk", "type", "x"]), self.wrong(set())))
        return ms

    def gen_def(self, d, p, depth):
        r = self.rng
        if d["kind"] == "struct" and d.get("cfrom"):
            return self.gen(d["cfrom"]["ty"], p, depth)          # the payload is the intermediate type's, the function makes the struct
        if d["kind"] == "struct":
            if r.random() < p * 0.3: return self.wrong({"map"})
            ms = self.fields_members(d["fields"], d["rename_all"], p, depth, d["deny"])
            r.shuffle(ms)
            return vmap(dedup(ms))
        # enums
        if self.golden:
            v = r.choice(d["variants"] if d["tag"] else [x for x in d["variants"] if not x["fields"]])
            i = G.unraw(v["ident"])
            vn = v["rename"] if v["rename"] is not None else (camel(i) if d.get("rename_all") == "camelCase" else (i.lower() if d.get("rename_all") == "lowercase" else i))
            if not d["tag"]:
                return vstr(vn)
            return vmap(dedup(self.fields_members(v["fields"] or [], v["rename_all"], p, depth, d["deny"]) + [(d["tag"], vstr(vn))]))
        if not d["tag"]:
            names = []
            for v in d["variants"]:
                i = G.unraw(v["ident"])
                names += [i, camel(i), i.lower(), i.upper(), transposed(i), transposed(i.lower()), i + "s", " " + i, i.lower() + " "]
                if v["rename"] is not None: names.append(v["rename"])
            if r.random() < p * 0.3: return self.wrong({"str"})
            return vstr(r.choice(names + ["", "nope"]))
        if r.random() < p * 0.3: return self.wrong({"map"})
        v = r.choice(d["variants"])
        i = G.unraw(v["ident"])
        # plausible names of the variant; which one is the effective name is the specification's business
        names = [i, camel(i), i.lower()] + ([v["rename"]] * 3 if v["rename"] is not None else [i])
        tagv = vstr(r.choice(names)) if r.random() >= p * 0.5 else r.choice([vint(1), vnull(), vstr("nope"), vstr(i.upper()), vseq([]), vstr(" " + i), vstr(i + " ")])
        ms = self.fields_members(v["fields"] or [], v["rename_all"], p, depth, d["deny"])
        if r.random() >= p * 0.3:
            ms.append((d["tag"], tagv))
        r.shuffle(ms)
        return vmap(dedup(ms))


def dedup(ms):
    seen, out = set(), []
    for k, v in ms:
        if k not in seen:
            seen.add(k)
            out.append((k, v))
    return out


# ------------------------------------------------------------------ permutations of object members
def count_maps(v):
    if v["t"] == "map":
        return 1 + sum(count_maps(m["v"]) for m in v["e"])
    if v["t"] == "seq":
        return sum(count_maps(x) for x in v["e"])
    return 0


def permute(v, rng):
    """a copy with the members of every object shuffled"""
    if v["t"] == "map":
        ms = [{"k": m["k"], "v": permute(m["v"], rng)} for m in v["e"]]
        rng.shuffle(ms)
        return dict(v, e=ms)
    if v["t"] == "seq":
        return dict(v, e=[permute(x, rng) for x in v["e"]])
    return v


def top_perms(v, cap):
    """all permutations of the top-level members (when there are few)"""
    if v["t"] != "map" or len(v["e"]) < 2 or len(v["e"]) > 4:
        return []
    out = []
    for perm in itertools.permutations(v["e"]):
        out.append(dict(v, e=list(perm)))
        if len(out) >= cap:
            break
    return out[1:]


def has_deny(ty, defs, seen=None):
    """does the type tree contain a struct / enum with deny_unknown_fields?"""
    seen = seen or set()
    k = ty[0]
    if k == "ref":
        if ty[1] in seen:
            return False
        seen.add(ty[1])
        d = defs[ty[1]]
        if d["deny"]:
            return True
        fs = list(d.get("fields") or []) + [f for v in d.get("variants", []) for f in (v["fields"] or [])]
        return any(has_deny(f["from"]["ty"] if f.get("from") else f["ty"], defs, seen) for f in fs)
    if k in ("vec", "hset", "bset", "opt", "box"): return has_deny(ty[1], defs, seen)
    if k == "arr": return has_deny(ty[1], defs, seen)
    if k == "tup": return any(has_deny(t, defs, seen) for t in ty[1])
    if k in ("hmap", "bmap"): return has_deny(ty[2], defs, seen)
    return False


def add_extras(ty, v, defs, rng, poison=False):
    """a copy of payload v in which every object that feeds a derived struct / enum carries additional unknown members
    (also the identifiers of skipped fields); objects feeding map targets and serde_json::Value are left alone"""
    k = ty[0]
    if k == "ref" and v["t"] == "map":
        d = defs[ty[1]]
        if d.get("cfrom"):
            return add_extras(d["cfrom"]["ty"], v, defs, rng, poison)
        if d["kind"] == "struct":
            fs = d["fields"]
        else:
            fs = [f for var in d["variants"] for f in (var["fields"] or [])]
        ms = []
        for m in v["e"]:
            sub = [f for f in fs if m["k"] in (G.unraw(f["ident"]), camel(G.unraw(f["ident"])), G.unraw(f["ident"]).lower(), f["rename"])]
            nv = add_extras(sub[0]["from"]["ty"] if sub and sub[0].get("from") else (sub[0]["ty"] if sub else ("phantom",)), m["v"], defs, rng, poison) if sub else m["v"]
            ms.append({"k": m["k"], "v": nv})
        have = {m["k"] for m in ms}
        extra = ["zz__", "extra__1"] + [G.unraw(f["ident"]) + "__" for f in fs[:1]] + [G.unraw(f["ident"]) for f in fs if f["skip"]]
        for x in extra:
            if x not in have and x != d.get("tag"):
                # through the second value source the extra member may carry a value whose conversion panics: it must never be looked at
                ms.insert(rng.randint(0, len(ms)), {"k": x, "v": rng.choice([vnull(), vint(1), vstr("x"), vseq([])] + ([V("poison")] * 3 if poison else []))})
                have.add(x)
        return dict(v, e=ms, n=len(ms))
    if k in ("vec", "hset", "bset", "arr") and v["t"] == "seq":
        return dict(v, e=[add_extras(ty[1], x, defs, rng, poison) for x in v["e"]])
    if k == "tup" and v["t"] == "seq":
        return dict(v, e=[add_extras(ty[1][i], x, defs, rng, poison) if i < len(ty[1]) else x for i, x in enumerate(v["e"])])
    if k in ("opt", "box"):
        return add_extras(ty[1], v, defs, rng, poison)
    if k in ("hmap", "bmap") and v["t"] == "map":
        return dict(v, e=[{"k": m["k"], "v": add_extras(ty[2], m["v"], defs, rng, poison)} for m in v["e"]])
    return v


def entries(extra_defs=(), extra_entries=()):
    g, table = G.generate(extra_defs, extra_entries, write=False)
    ents = [("ref", e[1]) if e[0] == "bare" else e for e in list(C.ENTRIES) + list(extra_entries)]     # a twin takes the payloads of its original
    return list(zip(table["entries"], ents)), table
