#!/usr/bin/env python3
"""Mechanical single-line mutants of /repo (in a scratch worktree, never in /repo): a complement to the changes written by sub-agents.

  tools/mechmut.py gen            enumerate mutation sites -> work/mech/sites.json
  tools/mechmut.py filter K N     worker K of N: keep the mutants that compile and pass the repository's own test suite
                                  -> work/mech/<id>/patch.diff + meta.json (checks to run chosen by file / operator)
  tools/mechmut.py run K N        worker K of N: run the chosen checks against every kept mutant (tools/mutants.py machinery)
                                  -> work/mech/results_K.log
A mutant is `detected` when some check exits 1 or charges some property in its trace; the others are listed for inspection
(equivalent mutants, or gaps)."""
import json, os, re, subprocess, sys, shutil, hashlib
V = os.path.dirname(os.path.dirname(os.path.abspath(__file__)))
M = os.path.join(V, "work", "mech")
FILES = ["src/impls.rs", "src/lib.rs", "src/value.rs", "src/serde_json.rs", "src/serde_cs.rs", "src/errors/json.rs", "src/errors/query_params.rs",
         "src/errors/helpers.rs", "derive/src/derive_named_fields.rs", "derive/src/derive_enum.rs", "derive/src/derive_struct.rs",
         "derive/src/derive_user_provided_function.rs", "derive/src/parse_type.rs", "derive/src/attribute_parser.rs",
         "src/actix_web/serde_json.rs", "src/actix_web/query_parameters.rs", "src/axum/serde_json.rs"]
OPS = [
    ("break-ignored", r"ControlFlow::Break\((\w+)\) => return (?:::std::result::Result::)?Err\(\1\)", r"ControlFlow::Break(\1) => Some(\1)"),
    ("continue-returns", r"ControlFlow::Continue\((\w+)\) => Some\(\1\)", r"ControlFlow::Continue(\1) => return Err(\1)"),
    ("d-break-ignored", r"::std::ops::ControlFlow::Break\(e\) => return ::std::result::Result::Err\(e\),", "::std::ops::ControlFlow::Break(e) => ::std::option::Option::Some(e),"),
    ("d-continue-returns", r"::std::ops::ControlFlow::Continue\(e\) => ::std::option::Option::Some\(e\),", "::std::ops::ControlFlow::Continue(e) => return ::std::result::Result::Err(e),"),
    ("d-acc-none", r"^(\s*)deserr_error__,$", r"\1::std::option::Option::None,"),
    ("d-drop-key", r"deserr_location__\.push_key\([^()]*(?:\(\))?[^()]*\)", "deserr_location__"),
    ("d-missing-to-present", r"\.is_missing\(\)", ".is_missing() && false"),
    ("drop-index", r"(\w+)\.push_index\(([^()]*)\)", r"\1"),
    ("drop-key", r"(\w+)\.push_key\(([^()]*)\)", r"\1"),
    ("index-plus-one", r"\.push_index\((\w+)\)", r".push_index(\1 + 1)"),
    ("acc-none", r"\((error|deserr_error__),", r"(None,"),
    ("lt-le", r" < ", " <= "), ("le-lt", r" <= ", " < "), ("gt-ge", r" > ", " >= "), ("ge-gt", r" >= ", " > "),
    ("eq-ne", r" == ", " != "), ("ne-eq", r" != ", " == "),
    ("true-false", r"\btrue\b", "false"), ("false-true", r"\bfalse\b", "true"),
    ("and-or", r" && ", " || "), ("or-and", r" \|\| ", " && "),
    ("num-plus", r"\b([1-9]\d?)\b(?!\s*=>)(?![\w.])", lambda m: str(int(m.group(1)) + 1)),
    ("some-none-ret", r"return Some\(([^()]*)\)", "return None"),
    ("is-some-none", r"\.is_some\(\)", ".is_none()"), ("is-none-some", r"\.is_none\(\)", ".is_some()"),
    ("unraw-drop", r"\.unraw\(\)", ""),
    ("first-last", r"\.first\(\)", ".last()"), ("min-max", r"\.min_by\(", ".max_by("),
]


def checks_for(path, op, lineno):
    if path.startswith("src/actix_web") or path.startswith("src/axum"):
        return ["C20"]
    if path == "src/errors/helpers.rs":
        return ["C18", "C14"]
    if path == "src/errors/json.rs":
        return ["C17", "C14"]
    if path == "src/errors/query_params.rs":
        return ["C14"]
    if path == "src/value.rs":
        return ["C19", "C13", "C06", "C10"]
    if path == "src/serde_json.rs":
        return ["C13", "C01", "C12"]
    if path == "src/serde_cs.rs":
        return ["C06"]
    if path == "derive/src/attribute_parser.rs":
        return ["C16", "C07"]
    if path.startswith("derive/"):
        return ["C07", "C08", "C11", "C16"]
    if path == "src/impls.rs" and lineno < 480:
        return ["C05", "C02"]
    if path == "src/impls.rs":
        return ["C06", "C03", "C12"]
    return ["C02", "C12"]


def gen():
    sites = []
    for path in FILES:
        p = os.path.join("/repo", path)
        if not os.path.exists(p):
            continue
        lines = open(p).read().split("\n")
        in_test = False
        for i, ln in enumerate(lines):
            if "#[cfg(test)]" in ln:
                in_test = True
            st = ln.strip()
            if in_test or st.startswith("//") or st.startswith("#[") or not st:
                continue
            for name, pat, rep in OPS:
                for m in re.finditer(pat, ln):
                    new = ln[:m.start()] + (m.expand(rep) if isinstance(rep, str) else rep(m)) + ln[m.end():]
                    if new != ln:
                        sid = "M" + hashlib.sha1(("%s:%d:%s:%d" % (path, i, name, m.start())).encode()).hexdigest()[:8]
                        sites.append({"id": sid, "file": path, "line": i + 1, "op": name, "old": ln, "new": new})
    os.makedirs(M, exist_ok=True)
    # spread: at most 6 sites per (file, op), evenly over the file
    by = {}
    for s in sites:
        by.setdefault((s["file"], s["op"]), []).append(s)
    keep = []
    for k, v in sorted(by.items()):
        cap = 10 if k[0].startswith("derive/") else 6
        step = max(1, len(v) // cap)
        keep += v[::step][:cap]
    json.dump(keep, open(os.path.join(M, "sites.json"), "w"), indent=0)
    print("%d sites (%d before thinning)" % (len(keep), len(sites)))


def sh(cmd, cwd, timeout=1800):
    return subprocess.run(cmd, cwd=cwd, shell=True, stdout=subprocess.PIPE, stderr=subprocess.STDOUT, text=True, timeout=timeout)


def scratch(k):
    S = "/tmp/deserr-mech%d" % k
    repo = os.path.join(S, "repo")
    if not os.path.exists(repo):
        os.makedirs(S, exist_ok=True)
        subprocess.check_call("git -C /repo worktree add -q --detach %s HEAD && cp /repo/Cargo.lock %s/" % (repo, repo), shell=True)
    return S, repo


def filt(k, n):
    S, repo = scratch(k)
    sites = json.load(open(os.path.join(M, "sites.json")))[k::n]
    feat_all = " --features actix-web,axum"
    for s in sites:
        d = os.path.join(M, s["id"])
        if os.path.exists(os.path.join(d, "meta.json")) or os.path.exists(os.path.join(d, "rejected")):
            continue
        sh("git checkout -q -- .", repo)
        p = os.path.join(repo, s["file"])
        lines = open(p).read().split("\n")
        if lines[s["line"] - 1] != s["old"]:
            continue
        lines[s["line"] - 1] = s["new"]
        open(p, "w").write("\n".join(lines))
        feat = feat_all if s["file"].startswith(("src/actix_web", "src/axum")) else ""
        try:
            r = sh("cargo test --offline%s 2>&1 | tail -400" % feat, repo, timeout=1500)
            out = r.stdout
        except subprocess.TimeoutExpired:
            out = "could not compile (timeout)"
        ok = "could not compile" not in out and "test result: FAILED" not in out and "error[" not in out and "panicked" not in out and "test result: ok" in out
        os.makedirs(d, exist_ok=True)
        if not ok:
            open(os.path.join(d, "rejected"), "w").write(out[-600:])
            print(s["id"], s["file"], s["line"], s["op"], "rejected by the build / the test suite", flush=True)
        else:
            diff = sh("git diff", repo).stdout
            open(os.path.join(d, "patch.diff"), "w").write(diff)
            json.dump({"property": "mech", "kind": "mechanical", "file": s["file"], "line": s["line"], "op": s["op"], "old": s["old"].strip(),
                       "new": s["new"].strip(), "checks": checks_for(s["file"], s["op"], s["line"])}, open(os.path.join(d, "meta.json"), "w"), indent=1)
            print(s["id"], s["file"], s["line"], s["op"], "survives the test suite", flush=True)
    sh("git checkout -q -- .", repo)


def run(k, n):
    ids = sorted(x for x in os.listdir(M) if os.path.exists(os.path.join(M, x, "meta.json")))[k::n]
    done = set()
    lp = os.path.join(M, "results_%d.log" % k)
    if os.path.exists(lp):
        done = {l.split(" ", 1)[0] for l in open(lp)}
    ids = [i for i in ids if i not in done]
    if not ids:
        return
    with open(lp, "a") as log:
        p = subprocess.Popen([sys.executable, os.path.join(V, "tools", "mutants.py")] + ids + ["--keep", "--scratch", "/tmp/deserr-mech%d" % k,
                              "--seed-dir", M], stdout=subprocess.PIPE, stderr=subprocess.STDOUT, text=True)
        for line in p.stdout:
            log.write(line); log.flush()
        p.wait()


def table():
    merged = {}
    for f in sorted(os.listdir(M)):
        if f.startswith("results_"):
            for l in open(os.path.join(M, f)):
                try:
                    sid, rest = l.split(" ", 1); r = json.loads(rest)
                except Exception:
                    continue
                merged.setdefault(sid, {}).update({p: v for p, v in r.items() if isinstance(v, dict)})
    rows = []
    for sid, r in sorted(merged.items()):
        meta = json.load(open(os.path.join(M, sid, "meta.json")))
        det = sorted(p for p, v in r.items() if v.get("rc") == 1 or any((v.get("by_property") or {}).values()))
        tool = sorted(p for p, v in r.items() if v.get("rc") == 2)
        rows.append((sid, meta["file"], meta["line"], meta["op"], meta["old"][:70], meta["new"][:70], ",".join(det), ",".join(tool), r))
    nrej = sum(1 for x in os.listdir(M) if os.path.exists(os.path.join(M, x, "rejected")))
    print("%d mutants rejected by the build or the repository's tests; %d survive them; %d of those run" % (nrej, sum(1 for x in os.listdir(M) if os.path.exists(os.path.join(M, x, "meta.json"))), len(rows)))
    for r in rows:
        print("%s %s:%d %s | %s -> %s | detected by: %s%s" % (r[0], r[1], r[2], r[3], r[4], r[5], r[6] or "NOTHING", (" tool-error: " + r[7]) if r[7] else ""))
    json.dump([{"id": r[0], "file": r[1], "line": r[2], "op": r[3], "old": r[4], "new": r[5], "detected_by": r[6].split(",") if r[6] else []} for r in rows],
              open(os.path.join(M, "table.json"), "w"), indent=1)


if __name__ == "__main__":
    c = sys.argv[1]
    if c == "gen": gen()
    elif c == "filter": filt(int(sys.argv[2]), int(sys.argv[3]))
    elif c == "run": run(int(sys.argv[2]), int(sys.argv[3]))
    elif c == "table": table()
