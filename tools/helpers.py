"""Generic runner for the helper-function / small state machine properties
(C05 scalars, C13 bridge, C17 kinds, C18 did-you-mean, C19 pointers).

Shape of every such check:
  1. TLC explores the TLA+ module exhaustively within the tier's constants (invariants of the
     design), and prints one REPLAY record per explored input.
  2. spec -> impl: the Rust harness executes every REPLAY record against the real deserr code
     (plus seeded random inputs of its own) and records an ndjson trace.
  3. impl -> spec: TLC validates every trace line against the same TLA+ definitions
     (Trace_<x>.tla, monitor style); disagreeing lines are violations.
"""
import json, os, time
import vlib
from vlib import log


def _split_runs(lines):
    runs, cur = [], []
    for ln in lines:
        if '"e":"reset"' in ln and cur:
            runs.append(cur)
            cur = []
        cur.append(ln)
    if cur:
        runs.append(cur)
    return runs


def validate_sharded(pid, trace_module, cfg, trace_path, nshards, timeout=3000, xmx="4g", env_extra=None, header=()):
    """Validate a trace file in parallel shards. Returns (total_lines, results list, bad runs list, states).
    header: lines put at the head of every shard (facts observed once that every shard's lines are judged against)."""
    with open(trace_path) as f:
        lines = [ln.rstrip("\n") for ln in f if ln.strip()]
    if not lines:
        raise vlib.ToolError("empty trace %s" % trace_path)
    shards = [list(header) + sh for sh in vlib.shard_lines(lines, nshards)]
    jobs = []
    paths = []
    for k, sh in enumerate(shards):
        sp = "%s.shard%d" % (trace_path, k)
        with open(sp, "w") as f:
            f.write("\n".join(sh) + "\n")
        paths.append((sp, sh))
        jobs.append((vlib.validate_trace, (trace_module, cfg, sp, "%s-tv-%s-%d" % (pid, os.path.basename(trace_path), k), timeout, env_extra, xmx)))
    outs = vlib.parallel(jobs, min(len(jobs), max(1, vlib.NCPU // 2)))
    bad_runs = []
    states = 0
    results = []
    for (sp, sh), (res, tr) in zip(paths, outs):
        states += tr.distinct
        results.append(res)
        if res.get("lines") != len(sh):
            raise vlib.ToolError("trace shard %s: %s lines consumed of %d" % (sp, res.get("lines"), len(sh)))
        if res.get("nviol", 0) > 0:
            # map the first violating lines back to their reset-delimited runs
            starts = [i for i, ln in enumerate(sh) if '"e":"reset"' in ln] or [0]
            for item in res.get("viol", []):
                ln_no = item if isinstance(item, int) else item.get("l")
                idx = ln_no - 1
                s = max([x for x in starts if x <= idx] or [0])
                e = min([x for x in starts if x > idx] or [len(sh)])
                bad_runs.append({"line": ln_no - s, "events": [json.loads(x) for x in sh[s:e]], "detail": item})
        os.remove(sp)
    return len(lines), results, bad_runs, states


def run(pid, tier, cfg):
    """cfg keys:
      mc: list of dict(module, cfg, workers, timeout, [env]) - TLC design runs (must pass, may print REPLAY)
      sub: harness sub-command
      replay_args: args for `dh <sub> ...` consuming REPLAY records on stdin
      random_args: {tier: [args]} extra harness-driven runs (list of arg lists)
      trace: (module, cfg)
      nontrivial: fn(event dict) -> key or None for distinct_nontrivial counting (on reset/input events)
      known: fn(bad_run) -> description or None
    """
    t0 = time.time()
    vlib.ensure_dirs()
    states = transitions = 0
    replay_records = []
    mc_summary = []
    for m in cfg["mc"][tier]:
        r = vlib.run_tlc(m["module"], m["cfg"], "%s-mc-%s" % (pid, m["cfg"].replace(".cfg", "")), workers=m.get("workers", 4),
                         timeout=m.get("timeout", 1800), env_extra=m.get("env"), xmx=m.get("xmx", "6g"))
        if not r.ok:
            # a failing design-level invariant is a spec-level counterexample
            log(r.error_text[:1500])
            path = vlib.save_replay(pid, "mc", {"kind": "tlc-counterexample", "module": m["module"], "cfg": m["cfg"], "output": r.error_text})
            vlib.write_evidence(pid, tier, "model_checking", {"evaluations": 1, "distinct_nontrivial": 0,
                                "explanation": "TLC reported an error on the design-level model", "samples": [r.error_text[:500]]},
                                [], time.time() - t0, 1)
            return vlib.finish(pid, [(path, "TLC error in %s/%s" % (m["module"], m["cfg"]))])
        states += r.distinct
        transitions += r.generated
        recs = vlib.tagged_json(r, "REPLAY")
        replay_records += recs
        mc_summary.append({"module": m["module"], "cfg": m["cfg"], "distinct_states": r.distinct, "states_generated": r.generated,
                           "depth": r.depth, "replay_records": len(recs), "wall_s": round(r.wall, 1)})
        log("[mc] %s/%s: %d distinct, %d generated, %d replay records, %.1fs" % (m["module"], m["cfg"], r.distinct, r.generated, len(recs), r.wall))
    binary = vlib.build_harness()
    traces = []
    tdir = os.path.join(vlib.WORK, "traces")
    if replay_records:
        rp = os.path.join(tdir, "%s-replay-in.ndjson" % pid)
        with open(rp, "w") as f:
            for rec in replay_records:
                f.write(json.dumps(rec) + "\n")
        tp = os.path.join(tdir, "%s-replay.ndjson" % pid)
        vlib.run_harness(binary, [cfg["sub"]] + cfg["replay_args"], stdin_path=rp, stdout_path=tp)
        traces.append(tp)
    for k, args in enumerate(cfg.get("random_args", {}).get(tier, [])):
        tp = os.path.join(tdir, "%s-random%d.ndjson" % (pid, k))
        vlib.run_harness(binary, [cfg["sub"]] + args, stdout_path=tp)
        traces.append(tp)
    tmod, tcfg = cfg["trace"]
    header = []
    if cfg.get("probe_args"):
        hp = os.path.join(tdir, "%s-probe.ndjson" % pid)
        vlib.run_harness(binary, [cfg["sub"]] + cfg["probe_args"], stdout_path=hp)
        header = [ln.rstrip("\n") for ln in open(hp) if ln.strip()]
    total_lines = 0
    bad = []
    tv_states = 0
    nruns = 0
    keys = set()
    samples = []
    for tp in traces:
        n, results, bad_runs, st = validate_sharded(pid, tmod, tcfg, tp, cfg.get("shards", {}).get(tier, 8),
                                                    env_extra=cfg.get("trace_env"), header=header)
        total_lines += n
        tv_states += st
        bad += bad_runs
        with open(tp) as f:
            for ln in f:
                if '"e":"reset"' in ln:
                    nruns += 1
                    ev = json.loads(ln)
                    k = cfg["nontrivial"](ev)
                    if k is not None:
                        keys.add(k)
                    if len(samples) < 3 or (nruns % 5000 == 1 and len(samples) < 8):
                        samples.append(ev.get("inp", ev))
        log("[trace] %s: %d lines validated, %d bad runs so far" % (os.path.basename(tp), n, len(bad)))
    violations, known_hits = [], []
    known = cfg.get("known")
    for b in bad:
        d = known(b) if known else None
        if d:
            if d not in known_hits:
                known_hits.append(d)
            continue
        inp = b["events"][0].get("inp") or cfg.get("probe_replay_input")      # a rejected probe line is re-observed by any replay
        path = vlib.save_replay(pid, "tv", {"property": pid, "sub": cfg["sub"], "replay_args": cfg["replay_args"],
                                              "trace": list(cfg["trace"]), "input": inp, "line_in_run": b["line"], "observed": b["events"]})
        evs = b["events"]
        bad_ev = evs[min(max(b["line"], 1), len(evs)) - 1]
        violations.append((path, "trace line %d of run disagrees with %s: %s" % (b["line"], tmod, json.dumps(bad_ev)[:400])))
    cov = {
        "states": states + tv_states,
        "transitions": transitions + total_lines,
        "traces_validated_against_impl": nruns,
        "samples": samples,
        "evaluations": total_lines,
        "distinct_nontrivial": len(keys),
        "rule": cfg["rule"],
        "exhaustive": True,
        "mc_runs": mc_summary,
        "mc_distinct_states": states,
        "trace_lines_validated": total_lines,
        "trace_validation_states": tv_states,
        "spec_to_impl_replay_records": len(replay_records),
        "checker_cmd": "tlc (tla2tools 1.8.0) on spec/%s + spec/%s" % (cfg["mc"][tier][0]["module"] + ".tla", tmod + ".tla"),
    }
    vlib.write_evidence(pid, tier, "model_checking", cov, cfg["assumptions"], time.time() - t0, len(violations))
    return vlib.finish(pid, violations, known_hits)


def replay(pid, cfg, path):
    """Re-execute the input of a replay file on the current tree and re-validate it."""
    obj = json.load(open(path))
    if obj.get("kind") == "tlc-counterexample":
        print(obj["output"])
        return 1
    binary = vlib.build_harness()
    tdir = os.path.join(vlib.WORK, "traces")
    rp = os.path.join(tdir, "%s-rp-in.ndjson" % pid)
    with open(rp, "w") as f:
        f.write(json.dumps(obj["input"]) + "\n")
    tp = os.path.join(tdir, "%s-rp.ndjson" % pid)
    vlib.run_harness(binary, [cfg["sub"]] + cfg["replay_args"], stdin_path=rp, stdout_path=tp)
    header = []
    if cfg.get("probe_args"):
        hp = os.path.join(tdir, "%s-rp-probe.ndjson" % pid)
        vlib.run_harness(binary, [cfg["sub"]] + cfg["probe_args"], stdout_path=hp)
        header = [ln.rstrip("\n") for ln in open(hp) if ln.strip()]
    n, results, bad, st = validate_sharded(pid, cfg["trace"][0], cfg["trace"][1], tp, 1, env_extra=cfg.get("trace_env"), header=header)
    print(open(tp).read())
    if bad:
        print("VIOLATION property=%s replay=%s" % (pid, path))
        return 1
    print("OK property=%s (replayed input no longer violates)" % pid)
    return 0
