#!/usr/bin/env python3
"""Demonstrates that the trace specification binds: real traces of the unchanged tree are corrupted in one recorded field
(or one event is removed) and every corruption must be rejected by the monitor under the expected property.

  tools/selftest.py            prints one line per corruption; exit 0 iff every corruption is rejected as expected
"""
import copy, json, os, random, sys
sys.path.insert(0, os.path.dirname(os.path.abspath(__file__)))
import vlib, corecheck


def runs_of(path):
    groups, cur = [], None
    with open(path) as f:
        for ln in f:
            e = json.loads(ln)
            if e["e"] == "reset":
                cur = [e]
                groups.append(cur)
            elif e["e"] == "run":
                cur = None          # only reference runs are corrupted (they stand alone)
            elif cur is not None:
                cur.append(e)
    return groups


# each operator returns a corrupted copy of the run, or None when not applicable
def op_enter_index(run):
    for i, e in enumerate(run):
        if e["e"] == "enter" and e["loc"] and e["loc"][-1]["t"] == "idx":
            r = copy.deepcopy(run); r[i]["loc"][-1]["i"] += 1; return r

def op_enter_key(run):
    for i, e in enumerate(run):
        if e["e"] == "enter" and e["loc"] and e["loc"][-1]["t"] == "key":
            r = copy.deepcopy(run); r[i]["loc"][-1]["k"] += "_"; return r

def op_flip_exit_ok(run):
    for i, e in enumerate(run):
        if e["e"] == "exit" and e["ok"] and i + 1 < len(run) and run[i + 1]["e"] != "done":
            r = copy.deepcopy(run); r[i]["ok"] = False; r[i]["err"] = {"z": "E", "ids": []}; return r

def op_dup_exit_id(run):
    for i, e in enumerate(run):
        if e["e"] == "exit" and not e["ok"] and e["err"]["ids"]:
            r = copy.deepcopy(run); r[i]["err"]["ids"].append(e["err"]["ids"][0]); return r

def op_drop_exit_id(run):
    for i, e in enumerate(run):
        if e["e"] == "exit" and not e["ok"] and len(e["err"]["ids"]) >= 2:
            r = copy.deepcopy(run); r[i]["err"]["ids"].pop(0); return r

def op_ok_after_report(run):
    for i, e in enumerate(run):
        if e["e"] == "exit" and not e["ok"] and i + 1 < len(run) and run[i + 1]["e"] == "mrg":
            r = copy.deepcopy(run); r[i]["ok"] = True; r[i]["err"] = {"z": "none", "ids": []}; del r[i + 1]; return r

def op_break_ignored(run):
    for i, e in enumerate(run):
        # a container-level decision (a leaf's own report returns whatever the answer is)
        if e["e"] == "mrg" and e["ans"] == "c" and i + 1 < len(run) and run[i + 1]["e"] == "enter":
            r = copy.deepcopy(run); r[i]["ans"] = "b"; return r

def op_accepted_order(run):
    for i, e in enumerate(run):
        if e["e"] == "err" and e["det"]["k"] == "unknownkey" and len(e["det"]["accepted"]) >= 2:
            r = copy.deepcopy(run); r[i]["det"]["accepted"] = list(reversed(e["det"]["accepted"])); return r

def op_missing_name(run):
    for i, e in enumerate(run):
        if e["e"] == "err" and e["det"]["k"] == "missing":
            r = copy.deepcopy(run); r[i]["det"]["field"] += "x"; return r

def op_actual_value(run):
    for i, e in enumerate(run):
        if e["e"] == "err" and e["det"]["k"] == "kind" and e["det"]["actual"]["t"] == "int":
            r = copy.deepcopy(run); r[i]["det"]["actual"]["d"] = [9, 9]; return r

def op_err_location(run):
    for i, e in enumerate(run):
        if e["e"] == "err" and e["loc"]:
            r = copy.deepcopy(run); r[i]["loc"] = e["loc"][:-1]; return r

def op_merge_location(run):
    for i, e in enumerate(run):
        if e["e"] == "mrg" and e["loc"]:
            r = copy.deepcopy(run); r[i]["loc"] = e["loc"][:-1]; return r

def op_skip_element(run):
    depth, start = 0, None
    for i, e in enumerate(run):
        if e["e"] == "enter" and e["loc"] and e["loc"][-1]["t"] == "idx" and start is None:
            start, depth, n = i, 0, e["n"]
        if start is not None:
            if e["e"] == "enter": depth += 1
            if e["e"] == "exit":
                depth -= 1
                if depth == 0:
                    if e["ok"] and any(x["e"] == "enter" for x in run[i + 1:]):
                        return run[:start] + run[i + 1:]
                    start = None

def op_call_twice(run):
    for i, e in enumerate(run):
        if e["e"] == "ret" and e["ok"] and i >= 1 and run[i - 1]["e"] == "call":
            return run[:i + 1] + [copy.deepcopy(run[i - 1]), copy.deepcopy(e)] + run[i + 1:]

def op_panic(run):
    return run[:-1] + [{"e": "panic", "msg": "injected"}]


OPS = [
    ("a child entered at index i+1 instead of i", op_enter_index, {"C04", "C06"}),
    ("a field entered under another key", op_enter_key, {"C04", "C07"}),
    ("a successful child reported as failed without any report", op_flip_exit_ok, {"C01"}),
    ("one report id twice in a returned error", op_dup_exit_id, {"C01"}),
    ("one report id missing from a returned error", op_drop_exit_id, {"C01"}),
    ("Ok returned after a report, hand-over removed", op_ok_after_report, {"C01"}),
    ("work continues after a stop answer", op_break_ignored, {"C03"}),
    ("accepted keys listed in another order", op_accepted_order, {"C09"}),
    ("missing field named differently", op_missing_name, {"C08"}),
    ("actual value of a kind error changed", op_actual_value, {"C04"}),
    ("report located at the parent", op_err_location, {"C04"}),
    ("hand-over located at the grand-parent", op_merge_location, {"C04"}),
    ("one element never examined", op_skip_element, {"C02", "C06"}),
    ("a user function called twice", op_call_twice, {"C11"}),
    ("a panic instead of the result", op_panic, {"C12"}),
]


def main():
    vlib.ensure_dirs()
    src = os.path.join(vlib.WORK, "traces", "C11-core.ndjson")
    if not os.path.exists(src):
        print("run `tools/check.py C11` first (the self-test corrupts its trace)")
        return 2
    groups = runs_of(src)
    rng = random.Random(vlib.seed())
    rng.shuffle(groups)
    out = os.path.join(vlib.WORK, "traces", "selftest.ndjson")
    chosen = []
    with open(out, "w") as f:
        for name, op, expect in OPS:
            for run in groups:
                if run[-1]["e"] != "done" or run[0].get("deep"):
                    continue
                r = op(run)
                if r is not None:
                    chosen.append((name, expect))
                    for e in r:
                        f.write(json.dumps(e, separators=(",", ":")) + "\n")
                    break
            else:
                chosen.append((name, None))
    tot, bad = corecheck.validate("SELF", out, 1)
    # map violations to groups in order
    heads = []
    with open(out) as f:
        for i, ln in enumerate(f):
            if '"e":"reset"' in ln:
                heads.append(i + 1)
    rejected = {}
    for b in bad:
        l = b["item"]["l"]
        g = max(k for k, h in enumerate(heads) if h <= l)
        rejected.setdefault(g, set()).update(b["item"]["props"])
    ok = True
    k = 0
    summary = []
    for name, expect in chosen:
        if expect is None:
            print("SKIP  %-60s (no applicable run in the trace)" % name)
            summary.append({"corruption": name, "result": "not applicable"})
            continue
        got = rejected.get(k, set())
        good = bool(got & expect)
        ok = ok and good
        print("%s  %-60s expected one of %s, charged %s" % ("OK  " if good else "MISS", name, sorted(expect), sorted(got)))
        summary.append({"corruption": name, "expected_one_of": sorted(expect), "charged": sorted(got), "rejected": good})
        k += 1
    json.dump(summary, open(os.path.join(vlib.WORK, "selftest.json"), "w"), indent=1)
    return 0 if ok else 1


if __name__ == "__main__":
    sys.exit(main())
