#!/usr/bin/env python3
"""MANIFEST.setup_cmd: build the framework from files on disk only (offline)."""
import glob, os, subprocess, sys
sys.path.insert(0, os.path.dirname(os.path.abspath(__file__)))
import vlib


def main():
    vlib.ensure_dirs()
    # 1. every TLA+ module parses (SANY)
    bad = 0
    for tla in sorted(glob.glob(os.path.join(vlib.SPEC, "*.tla"))):
        p = subprocess.run(["java", "-cp", vlib.TLA_CP, "tla2sany.SANY", os.path.basename(tla)], cwd=vlib.SPEC,
                           stdout=subprocess.PIPE, stderr=subprocess.STDOUT, text=True)
        if p.returncode != 0 or "*** Errors" in p.stdout or "Fatal" in p.stdout:
            print(p.stdout[-2000:])
            bad += 1
    if bad:
        print("setup: %d TLA+ modules do not parse" % bad)
        return 1
    # 2. generated sources + harness build against /repo's working tree
    gen = os.path.join(vlib.VERIF, "tools", "gen_catalogue.py")
    if os.path.exists(gen):
        subprocess.check_call([sys.executable, gen])
    vlib.build_harness()
    print("setup: ok")
    return 0


if __name__ == "__main__":
    sys.exit(main())
