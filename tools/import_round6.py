#!/usr/bin/env python3
"""Copies the round-6 outputs (/tmp/seedout6/<Cxx>/{a,b}: two more violating changes for each helper property C13, C16-C20) into seeded/<Cxx>-g/-h."""
import json, os, shutil, sys
V = os.path.dirname(os.path.dirname(os.path.abspath(__file__)))
for pid in sys.argv[1:]:
    for sub, suf in (("a", "g"), ("b", "h")):
        src = "/tmp/seedout6/%s/%s" % (pid, sub)
        if not os.path.exists(src + "/patch.diff"):
            print("missing", src); continue
        dst = os.path.join(V, "seeded", "%s-%s" % (pid, suf))
        os.makedirs(dst, exist_ok=True)
        for f in os.listdir(src):
            if f in ("patch.diff", "demo.rs", "demo.sh", "notes.md", "summary.txt"):
                shutil.copy(os.path.join(src, f), os.path.join(dst, f))
        mp = os.path.join(dst, "meta.json")
        meta = json.load(open(mp)) if os.path.exists(mp) else {}
        meta.update({"property": pid, "kind": "violating", "checks": meta.get("checks", [pid]),
                     "origin": "independent sub-agent, sixth round (told the property text and one line per earlier change to avoid; asked for two "
                               "violations at code sites / triggers not used before)"})
        sm = os.path.join(src, "summary.txt")
        if os.path.exists(sm):
            meta["needs_to_manifest"] = open(sm).read().strip()[:400]
        json.dump(meta, open(mp, "w"), indent=1)
        print("imported", dst)
