#!/usr/bin/env python3
"""Collects the results of tools/mutants.py runs (work/mutants_*.log, later files override earlier ones) into
seeded/RESULTS.json and a markdown table (stdout)."""
import glob, json, os
V = os.path.dirname(os.path.dirname(os.path.abspath(__file__)))
res = {}
for f in sorted(glob.glob(os.path.join(V, "work", "mutants_*.log")), key=os.path.getmtime):
    for l in open(f):
        try:
            sid, rest = l.split(" ", 1)
            r = json.loads(rest)
        except Exception:
            continue
        if "error" in r:
            continue
        res.setdefault(sid, {}).update({p: {"verdict": v["verdict"], "also_charged": v.get("by_property")} for p, v in r.items() if v["verdict"] != "tool-error"})
json.dump(res, open(os.path.join(V, "seeded", "RESULTS.json"), "w"), indent=1, sort_keys=True)
print("| seeded change | kind | what it needs / what changes | check run | verdict | properties charged in that run |")
print("|---|---|---|---|---|---|")
for sid in sorted(res):
    mp = os.path.join(V, "seeded", sid, "meta.json")
    meta = json.load(open(mp)) if os.path.exists(mp) else {}
    kind = meta.get("kind") or ("revert of a fix: commit" if sid.startswith("F") else "violating")
    what = meta.get("needs_to_manifest") or meta.get("what_changes") or meta.get("note") or meta.get("origin") or ""
    if meta.get("also_breaks"):
        what += " [also breaks %s]" % ", ".join(meta["also_breaks"])
    for p, v in sorted(res[sid].items()):
        also = ", ".join("%s:%d" % kv for kv in sorted((v["also_charged"] or {}).items()))
        print("| %s | %s | %s | %s | %s | %s |" % (sid, kind, what.replace("|", "/")[:220], p, v["verdict"], also))
vs = [v["verdict"] for s in res.values() for v in s.values()]
print("\nviolating changes: %d caught, %d missed; neutral changes: %d quiet, %d false alarms" %
      (vs.count("caught"), vs.count("missed"), vs.count("quiet"), vs.count("false-alarm")))
