#!/usr/bin/env python3
"""Copies the round-7 outputs (/tmp/seedout7/<Cxx>/a: one more change per helper property under which the property still holds)
into seeded/<Cxx>-o (kind "neutral": the check must stay quiet)."""
import json, os, shutil, sys
V = os.path.dirname(os.path.dirname(os.path.abspath(__file__)))
for pid in sys.argv[1:]:
    src = "/tmp/seedout7/%s/a" % pid
    if not os.path.exists(src + "/patch.diff"):
        print("missing", src); continue
    dst = os.path.join(V, "seeded", "%s-o" % pid)
    os.makedirs(dst, exist_ok=True)
    for f in os.listdir(src):
        if f in ("patch.diff", "demo.rs", "demo.sh", "notes.md", "summary.txt"):
            shutil.copy(os.path.join(src, f), os.path.join(dst, f))
    mp = os.path.join(dst, "meta.json")
    meta = json.load(open(mp)) if os.path.exists(mp) else {}
    meta.update({"property": pid, "kind": "neutral", "checks": meta.get("checks", [pid]), "expect": "no check raises an alarm",
                 "origin": "independent sub-agent, seventh round (told the property text; asked for one behaviour change next to the mechanism "
                           "under which the property, read literally, still holds)"})
    sm = os.path.join(src, "summary.txt")
    if os.path.exists(sm):
        meta["what_changes"] = open(sm).read().strip()[:400]
    json.dump(meta, open(mp, "w"), indent=1)
    print("imported", dst)
