#!/usr/bin/env python3
"""Copies the round-8 outputs (/tmp/seedout8/<Cxx>/a: one more violating change (two cooperating sites / nested situations) for C03, C05, C08, C10, C11, C14) into seeded/<Cxx>-j."""
import json, os, shutil, sys
V = os.path.dirname(os.path.dirname(os.path.abspath(__file__)))
for pid in sys.argv[1:]:
    for sub, suf in (("a", "j"),):
        src = "/tmp/seedout8/%s/%s" % (pid, sub)
        if not os.path.exists(src + "/patch.diff"):
            print("missing", src); continue
        dst = os.path.join(V, "seeded", "%s-%s" % (pid, suf))
        os.makedirs(dst, exist_ok=True)
        for f in os.listdir(src):
            if f in ("patch.diff", "demo.rs", "demo.sh", "notes.md", "summary.txt"):
                shutil.copy(os.path.join(src, f), os.path.join(dst, f))
        mp = os.path.join(dst, "meta.json")
        meta = json.load(open(mp)) if os.path.exists(mp) else {}
        meta.update({"property": pid, "kind": "violating", "checks": meta.get("checks", [pid]),
                     "origin": "independent sub-agent, eighth round (told the property text and one line per earlier change to avoid; asked for one, preferably two cooperating sites; "
                               "violations at code sites / triggers not used before)"})
        sm = os.path.join(src, "summary.txt")
        if os.path.exists(sm):
            meta["needs_to_manifest"] = open(sm).read().strip()[:400]
        json.dump(meta, open(mp, "w"), indent=1)
        print("imported", dst)
