"""Seeded random derive inputs (thorough tier): structs and enums over a grammar of identifier shapes, attribute subsets in
any declaration order, and nesting; they extend the base catalogue for one run (Rust items + node table are regenerated)."""
import random
import catalogue as C

FIELD_IDENTS = ["a", "ab", "a_b", "ab_cd_ef", "x", "val", "my_field", "other_one", "id", "name_of", "zz_top", "myCamel", "kind_of", "sk"]
VARIANT_IDENTS = ["A", "Ab", "AbCd", "Xyz", "Long", "OtherVar", "B"]
RENAMES = ["r1", "the-name", "Alpha", "a", "b", "x", "my_field", "myField"]
TAGS = ["type", "kind", "t", "a", "x"]


def field_type(rng, prev_structs):
    pool = [C.U8, C.I8, C.BOOL, C.STR, ("opt", C.U8), ("vec", C.U8), ("vec", C.BOOL), ("hmap", "String", C.U8), ("tup", [C.U8, C.BOOL]),
            ("opt", C.STR), C.U16, ("bset", C.U8)]
    if prev_structs and rng.random() < 0.25:
        r = ("ref", rng.choice(prev_structs))
        return rng.choice([r, ("vec", r), ("opt", r)]), False
    return rng.choice(pool), True


def default_for(ty, rng):
    if ty == C.U8 or ty == C.U16 or ty == C.I8:
        n = rng.choice([0, 3, 7])
        return ("expr", str(n), C.num_rv(n))
    if ty == C.BOOL:
        return ("expr", "true", C.rv("bool", b=True))
    if ty == C.STR:
        return ("expr", 'String::from("d")', C.rv("str", s="d"))
    return "trait"


def random_fields(rng, prev_structs, nmax=5):
    n = rng.randint(1, nmax)
    idents = rng.sample(FIELD_IDENTS, n)
    fields = []
    for ident in idents:
        ty, has_default = field_type(rng, prev_structs)
        rename = rng.choice(RENAMES) if rng.random() < 0.3 else None
        default, skip = None, False
        if has_default:
            k = rng.random()
            if k < 0.2:
                default = "trait"
            elif k < 0.35:
                default = default_for(ty, rng)
            elif k < 0.5:
                skip = True
                if rng.random() < 0.3:
                    default = default_for(ty, rng)
        fields.append(C.field(ident, ty, rename=rename, default=default, skip=skip))
    return fields


def random_defs(seed, n):
    rng = random.Random(seed * 1000003 + 17)
    defs, entries, structs = [], [], []
    for i in range(n):
        name = "R%d_%d" % (seed % 100000, i)
        ra = rng.choice([None, None, "camelCase", "lowercase"])
        deny = rng.choice([None, "default"])
        if rng.random() < 0.6:
            d = C.struct(name, random_fields(rng, structs), rename_all=ra, deny=deny)
            structs.append(name)
        else:
            nv = rng.randint(1, 4)
            vids = rng.sample(VARIANT_IDENTS, nv)
            if rng.random() < 0.3:
                d = C.enum(name, [C.variant(v, rename=(rng.choice(RENAMES) if rng.random() < 0.3 else None)) for v in vids], rename_all=ra)
            else:
                vs = []
                for v in vids:
                    fs = None if rng.random() < 0.3 else random_fields(rng, structs, 3)
                    vs.append(C.variant(v, fs, rename=(rng.choice(RENAMES) if rng.random() < 0.25 else None),
                                        rename_all=rng.choice([None, None, "camelCase", "lowercase"])))
                d = C.enum(name, vs, tag=rng.choice(TAGS), rename_all=ra, deny=deny)
        defs.append(d)
        r = ("ref", name)
        entries.append(r)
        if rng.random() < 0.3:
            entries.append(rng.choice([("vec", r), ("opt", r), ("hmap", "String", r), ("tup", [r, C.U8])]))
    return defs, entries
