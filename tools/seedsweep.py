#!/usr/bin/env python3
"""Runs every registered quick check on the unchanged tree under other seeds than the default (no alarm may be raised whatever
the seed).  Evidence files go to a scratch directory so that /verif/evidence keeps the default-seed run.

  tools/seedsweep.py 2 3 4 [--props C01,C02]"""
import json, os, subprocess, sys, shutil, tempfile
V = os.path.dirname(os.path.dirname(os.path.abspath(__file__)))
seeds = [a for a in sys.argv[1:] if a.isdigit()]
props = None
for a in sys.argv[1:]:
    if a.startswith("--props="):
        props = a.split("=", 1)[1].split(",")
man = json.load(open(os.path.join(V, "MANIFEST.json")))
pids = props or [c["property_id"] for c in man["checks"]] if "checks" in man else props
scratch = tempfile.mkdtemp(prefix="verif-seeds-")
bad = 0
for sd in seeds:
    for pid in pids:
        env = dict(os.environ, VERIF_SEED=sd, VERIF_TIER="quick", VERIF_EVID=os.path.join(scratch, "evidence"))
        p = subprocess.run([sys.executable, os.path.join(V, "tools", "check.py"), pid], cwd=V, env=env, stdout=subprocess.PIPE, stderr=subprocess.STDOUT, text=True)
        last = [l for l in p.stdout.splitlines() if l.startswith(("OK ", "VIOLATION", "TOOL-ERROR", "KNOWN-FINDING"))]
        print("seed=%s %s rc=%d %s" % (sd, pid, p.returncode, " | ".join(last[:3])[:300]), flush=True)
        if p.returncode != 0:
            bad += 1
            open(os.path.join(V, "work", "seedsweep-%s-%s.log" % (sd, pid)), "w").write(p.stdout)
shutil.rmtree(scratch, ignore_errors=True)
sys.exit(1 if bad else 0)
