#!/bin/sh
# manual trace validation: tools/tv.sh Trace_core /path/trace.ndjson
cd /verif/spec && TRACE=$2 java -XX:+UseParallelGC -Xss1g -Xmx6g -Dtlc2.tool.queue.IStateQueue=StateDeque -cp /opt/veriftools/tla/tla2tools.jar:/opt/veriftools/tla/CommunityModules-deps.jar tlc2.TLC -workers 1 -metadir /verif/work/tlc/manual$$ -cleanup -noGenerateSpecTE -config $1.cfg $1.tla 2>&1 | grep -E "RESULT|Error|error|rror:|line |Finished" | python3 -c "
import sys,json
sys.path.insert(0,'/verif/tools')
import vlib
for line in sys.stdin:
    line=line.rstrip()
    pre='<<\"RESULT\", \"'
    if line.startswith(pre):
        r=json.loads(vlib._unescape_tla_string(line[len(pre):-3]))
        print('vcount',{k:v for k,v in r['vcount'].items() if v})
        for v in r['viol']: print('  viol',v)
        print({k:r[k] for k in r if k not in('vcount','viol','checked')})
        print('checked',r['checked'])
    else: print(line)
"
