#!/usr/bin/env python3
"""Generates from tools/catalogue.py (+ optional seeded random derive inputs):
     harness/dh/src/gen_cat.rs      Rust items compiled against /repo's working tree
     catalogue/catalogue.json       node table interpreted by spec/Deserr.tla, entry list for the drivers
"""
import json, os, sys
sys.path.insert(0, os.path.dirname(os.path.abspath(__file__)))
import catalogue as C

V = os.path.dirname(os.path.dirname(os.path.abspath(__file__)))

SCALAR_RUST = {"unit": "()", "String": "String", "char": "char", "bool": "bool", "f32": "f32", "f64": "f64"}
for w in ("8", "16", "32", "64", "128", "size"):
    SCALAR_RUST["u" + w] = "u" + w
    SCALAR_RUST["i" + w] = "i" + w
    SCALAR_RUST["NonZeroU" + w] = "std::num::NonZeroU" + w
    SCALAR_RUST["NonZeroI" + w] = "std::num::NonZeroI" + w
SCALAR_RUST["usize"] = "usize"; SCALAR_RUST["isize"] = "isize"
SCALAR_RUST["NonZeroUsize"] = "std::num::NonZeroUsize"; SCALAR_RUST["NonZeroIsize"] = "std::num::NonZeroIsize"


def unraw(ident):
    return ident[2:] if ident.startswith("r#") else ident


def blank_node(c):
    return {"c": c, "name": "", "kids": [], "arity": 0, "fields": [], "variants": [], "tag": "", "rename_all": "", "deny": "",
            "validate": False, "error": "", "cfrom": "", "cfn": "", "cref": False, "vfn": "", "denyfn": ""}


def optstr(s):
    return {"z": "none", "v": ""} if s is None else {"z": "some", "v": s}


class Gen:
    def __init__(self, defs, entries):
        self.defs = {d["name"]: d for d in defs}
        self.def_order = [d["name"] for d in defs]
        self.entries = entries
        self.nodes = []          # node records, id = index + 1
        self.rust_ty = {}        # node id -> rust type string (with probe)
        self.def_info = {}       # def name -> expanded info (fields with child node ids), expanded once
        self.fns = []            # user functions to emit (phase B)
        self.entry_ids = []

    def new_node(self, c):
        self.nodes.append(blank_node(c))
        return len(self.nodes)

    # ---- type expressions -------------------------------------------------------------------
    def occ(self, ty):
        """allocate the node(s) of one occurrence of a type expression; returns node id"""
        k = ty[0]
        if k == "ref":
            d = self.defs[ty[1]]
            info = self.expand_def(d)
            nid = self.new_node(info["c"])
            n = self.nodes[nid - 1]
            for key in ("name", "fields", "variants", "tag", "rename_all", "deny", "validate", "error", "cfrom", "cfn", "cref", "kids", "vfn", "denyfn"):
                n[key] = info[key]
            self.rust_ty[nid] = "P<%d, %s%s>" % (nid, d["name"], ("<%s>" % ", ".join(info["generic_args"])) if info["generic_args"] else "")
            return nid
        nid = self.new_node(k)
        n = self.nodes[nid - 1]
        if k == "scalar":
            n["name"] = ty[1]
            inner = SCALAR_RUST[ty[1]]
        elif k in ("vec", "hset", "bset", "opt", "box"):
            kid = self.occ(ty[1])
            n["kids"] = [kid]
            wrap = {"vec": "Vec<%s>", "hset": "std::collections::HashSet<%s>", "bset": "std::collections::BTreeSet<%s>",
                    "opt": "Option<%s>", "box": "Box<%s>"}[k]
            inner = wrap % self.rust_ty[kid]
        elif k == "arr":
            kid = self.occ(ty[1])
            n["kids"] = [kid]
            n["arity"] = ty[2]
            inner = "[%s; %d]" % (self.rust_ty[kid], ty[2])
        elif k == "tup":
            kids = [self.occ(t) for t in ty[1]]
            n["kids"] = kids
            n["arity"] = len(kids)
            inner = "(%s)" % ", ".join(self.rust_ty[x] for x in kids)
        elif k in ("hmap", "bmap"):
            kid = self.occ(ty[2])
            n["kids"] = [kid]
            n["name"] = ty[1]
            wrap = "std::collections::HashMap<%s, %s>" if k == "hmap" else "std::collections::BTreeMap<%s, %s>"
            inner = wrap % (ty[1], self.rust_ty[kid])
        elif k == "cs":
            n["name"] = ty[1]
            inner = "serde_cs::vec::CS<%s>" % ty[1]
        elif k == "jvalue":
            inner = "serde_json::Value"
        elif k == "phantom":
            inner = "std::marker::PhantomData<u8>"
        else:
            raise ValueError(ty)
        self.rust_ty[nid] = "P<%d, %s>" % (nid, inner)
        return nid

    def expand_fields(self, d, fields):
        out = []
        for f in fields:
            fr = f.get("from")
            kid = self.occ(fr["ty"] if fr else f["ty"])
            wrapped = bool(fr)
            dflt, dval = "none", C.rv("unit")
            if f["default"] == "trait" or (f["skip"] and f["default"] is None):
                dflt = "trait"
                dval = C.rv("wrap", name="w%d" % kid, e=[self.default_rv(fr["ty"])]) if wrapped else self.default_rv(f["ty"])
            elif f["default"] is not None:
                dflt = "expr"
                dval = C.rv("wrap", name="w%d" % kid, e=[f["default"][2]]) if wrapped else f["default"][2]
            rust_field_ty = ("W<%d, %s>" % (kid, self.rust_ty[kid])) if wrapped else self.rust_ty[kid]
            if f.get("param"):
                if wrapped:
                    raise ValueError("a type-parameter field cannot carry from / try_from in the catalogue")
                self.cur_generics.append((f["param"], self.rust_ty[kid], bool(f.get("needs"))))
                rust_field_ty = f["param"]
            out.append({"ident": unraw(f["ident"]), "src_ident": f["ident"], "node": kid, "rename": optstr(f["rename"]),
                        "dflt": dflt, "dval": dval, "skip": f["skip"], "mapfn": ("m_%d" % kid) if f["map"] else "",
                        "frm": fr["kind"] if fr else "none", "fromref": bool(fr and fr.get("ref")), "fn": ("f_%d" % kid) if fr else "",
                        "missfn": ("mf_%d" % kid) if f["missing_fn"] else "", "ety": "F" if f["error"] else "E",
                        "decl_ty": f["ty"], "rust_field_ty": rust_field_ty, "wrapped": wrapped, "needs": bool(f.get("needs"))})
        return out

    def default_rv(self, ty):
        k = ty[0]
        if k == "scalar":
            nm = ty[1]
            if nm == "bool": return C.rv("bool")
            if nm == "String": return C.rv("str")
            if nm == "unit": return C.rv("unit")
            if nm in ("f32", "f64"): return C.rv("float", s="0000000000000000")
            if nm == "char": return C.rv("str", s="\u0000")
            return C.num_rv(0)
        if k in ("vec",): return C.rv("list")
        if k in ("hset", "bset"): return C.rv("set")
        if k in ("hmap", "bmap"): return C.rv("map")
        if k == "opt": return C.rv("none")
        if k == "box": return self.default_rv(ty[1])
        if k == "tup":
            return C.rv("list", e=[self.default_rv(t) for t in ty[1]])
        if k == "arr":
            return C.rv("list", e=[self.default_rv(ty[1]) for _ in range(ty[2])])
        if k == "cs": return C.rv("list")
        if k == "phantom": return C.rv("unit")
        raise ValueError("no Default for %r" % (ty,))

    def expand_def(self, d):
        if d["name"] in self.def_info:
            return self.def_info[d["name"]]
        info = {"name": d["name"], "fields": [], "variants": [], "tag": "", "rename_all": d["rename_all"] or "", "deny": d["deny"] or "",
                "validate": bool(d["validate"]), "error": d["error"] or "", "cfrom": "", "cfn": "", "cref": False, "kids": [],
                "vfn": ("v_%s" % d["name"]) if d["validate"] else "", "denyfn": ("df_%s" % d["name"]) if d["deny"] == "fn" else ""}
        self.cur_generics = []
        if d["kind"] == "struct" and d.get("cfrom"):
            info["c"] = "cfrom"
            kid = self.occ(d["cfrom"]["ty"])
            info["kids"] = [kid]
            info["cfrom"] = d["cfrom"]["kind"]
            info["cfn"] = "cf_%s" % d["name"]
            info["cref"] = bool(d["cfrom"].get("ref"))
        elif d["kind"] == "struct":
            info["c"] = "struct"
            info["fields"] = self.expand_fields(d, d["fields"])
        else:
            unit_only = all(v["fields"] is None for v in d["variants"])
            info["c"] = "enum" if d["tag"] else "uenum"
            if not d["tag"] and not unit_only:
                raise ValueError("untagged enum with data: " + d["name"])
            info["tag"] = d["tag"] or ""
            for v in d["variants"]:
                info["variants"].append({"ident": unraw(v["ident"]), "src_ident": v["ident"], "rename": optstr(v["rename"]),
                                         "rename_all": v["rename_all"] or "", "unit": v["fields"] is None,
                                         "fields": self.expand_fields(d, v["fields"] or [])})
        info["generics"] = list(self.cur_generics)                      # (parameter, concrete Rust type, via needs_predicate)
        info["generic_args"] = [g[1] for g in self.cur_generics]
        self.def_info[d["name"]] = info
        return info

    # ---- Rust emission ----------------------------------------------------------------------
    def field_attrs(self, f, src):
        a = []
        if src["rename"] is not None: a.append('rename = "%s"' % src["rename"])
        if src["default"] == "trait": a.append("default")
        elif src["default"] is not None:
            a.append(("default = W(P(%s))" if f["wrapped"] else "default = P(%s)") % src["default"][1])
        if src["skip"]: a.append("skip")
        if f["frm"] == "from": a.append("from(%s%s) = %s" % ("&" if f["fromref"] else "", self.rust_ty[f["node"]], f["fn"]))
        if f["frm"] == "try": a.append("try_from(%s%s) = %s -> FnErr" % ("&" if f["fromref"] else "", self.rust_ty[f["node"]], f["fn"]))
        if f["mapfn"]: a.append("map = %s" % f["mapfn"])
        if f["missfn"]: a.append("missing_field_error = %s" % f["missfn"])
        if src["error"]: a.append("error = %s" % src["error"])
        if f.get("needs"): a.append("needs_predicate")
        if src.get("split"):
            return "".join("#[deserr(%s)] " % x for x in a)
        return ("#[deserr(%s)] " % ", ".join(a)) if a else ""

    def emit_fns(self, name):
        """user functions of one definition: they log call / ret and follow fixed, payload-controlled rules"""
        d = self.defs[name]
        info = self.def_info[name]
        out = []
        allf = list(info["fields"]) + [f for v in info["variants"] for f in v["fields"]]
        for f in allf:
            it = self.rust_ty[f["node"]]
            wt = f["rust_field_ty"]
            if f["frm"] == "from":
                arg = "&%s" % it if f["fromref"] else it
                out.append("fn %s(v: %s) -> %s {" % (f["fn"], arg, wt))
                out.append('    log_call("%s", vec![v.to_j()]);' % f["fn"])
                out.append("    let r = W(v%s);" % (".clone()" if f["fromref"] else ""))
                out.append('    log_ret_ok("%s", r.to_j());' % f["fn"])
                out.append("    r")
                out.append("}")
            if f["frm"] == "try":
                arg = "&%s" % it if f["fromref"] else it
                out.append("fn %s(v: %s) -> Result<%s, FnErr> {" % (f["fn"], arg, wt))
                out.append('    log_call("%s", vec![v.to_j()]);' % f["fn"])
                out.append("    if designated(&v.to_j()) {")
                out.append('        let e = new_fn_err("%s");' % f["fn"])
                out.append('        log_ret_err("%s", e.id);' % f["fn"])
                out.append("        return Err(e);")
                out.append("    }")
                out.append("    let r = W(v%s);" % (".clone()" if f["fromref"] else ""))
                out.append('    log_ret_ok("%s", r.to_j());' % f["fn"])
                out.append("    Ok(r)")
                out.append("}")
            if f["mapfn"]:
                out.append("fn %s(v: %s) -> %s {" % (f["mapfn"], wt, wt))
                out.append('    log_call("%s", vec![v.to_j()]);' % f["mapfn"])
                out.append("    let r = bump(v);")
                out.append('    log_ret_ok("%s", r.to_j());' % f["mapfn"])
                out.append("    r")
                out.append("}")
            if f["missfn"]:
                out.append("fn %s(field: &str, loc: deserr::ValuePointerRef) -> FnErr {" % f["missfn"])
                out.append('    log_call("%s", vec![str_rv(field), loc_rv(loc)]);' % f["missfn"])
                out.append('    let e = new_fn_err("%s");' % f["missfn"])
                out.append('    log_ret_err("%s", e.id);' % f["missfn"])
                out.append("    e")
                out.append("}")
        if info["denyfn"]:
            out.append("fn %s(key: &str, accepted: &[&str], loc: deserr::ValuePointerRef) -> FnErr {" % info["denyfn"])
            out.append('    log_call("%s", vec![str_rv(key), strs_rv(accepted), loc_rv(loc)]);' % info["denyfn"])
            out.append('    let e = new_fn_err("%s");' % info["denyfn"])
            out.append('    log_ret_err("%s", e.id);' % info["denyfn"])
            out.append("    e")
            out.append("}")
        if info["vfn"] and d["validate"] == "own":
            # the function returns the container's own error type: the failure is still handed to that type (MergeWithError<Self>)
            out.append("fn %s(v: %s, loc: deserr::ValuePointerRef) -> Result<%s, %s> {" % (info["vfn"], name, name, d["error"]))
            out.append('    log_call("%s", vec![v.to_j(), loc_rv(loc)]);' % info["vfn"])
            out.append("    if designated_v(&v.to_j()) {")
            out.append("        let id = crate::rt::fresh_id();")
            out.append('        log_ret_err("%s", id);' % info["vfn"])
            out.append("        return Err(%s { ids: vec![id] });" % d["error"])
            out.append("    }")
            out.append('    log_ret_ok("%s", v.to_j());' % info["vfn"])
            out.append("    Ok(v)")
            out.append("}")
        elif info["vfn"]:
            out.append("fn %s(v: %s, loc: deserr::ValuePointerRef) -> Result<%s, FnErr> {" % (info["vfn"], name, name))
            out.append('    log_call("%s", vec![v.to_j(), loc_rv(loc)]);' % info["vfn"])
            out.append("    if designated_v(&v.to_j()) {")
            out.append('        let e = new_fn_err("%s");' % info["vfn"])
            out.append('        log_ret_err("%s", e.id);' % info["vfn"])
            out.append("        return Err(e);")
            out.append("    }")
            out.append('    log_ret_ok("%s", v.to_j());' % info["vfn"])
            out.append("    Ok(v)")
            out.append("}")
        if info["cfn"]:
            it = self.rust_ty[info["kids"][0]]
            arg = "&%s" % it if info["cref"] else it
            ret = name if info["cfrom"] == "from" else "Result<%s, FnErr>" % name
            out.append("fn %s(v: %s) -> %s {" % (info["cfn"], arg, ret))
            out.append('    log_call("%s", vec![v.to_j()]);' % info["cfn"])
            if info["cfrom"] == "try":
                out.append("    if designated(&v.to_j()) {")
                out.append('        let e = new_fn_err("%s");' % info["cfn"])
                out.append('        log_ret_err("%s", e.id);' % info["cfn"])
                out.append("        return Err(e);")
                out.append("    }")
            out.append("    let r = %s { v: W(v%s) };" % (name, ".clone()" if info["cref"] else ""))
            out.append('    log_ret_ok("%s", r.to_j());' % info["cfn"])
            out.append("    %s" % ("r" if info["cfrom"] == "from" else "Ok(r)"))
            out.append("}")
        return out

    def emit_fields(self, finfo, fsrc, indent, pub):
        lines = []
        for f, s in zip(finfo, fsrc):
            lines.append("%s%s%s%s: %s," % (indent, self.field_attrs(f, s), "pub " if pub else "", s["ident"], f["rust_field_ty"]))
        return lines

    def emit_def(self, name):
        d = self.defs[name]
        info = self.def_info[name]
        cattrs = []
        if d["rename_all"]: cattrs.append("rename_all = %s" % d["rename_all"])
        if d["deny"] == "default": cattrs.append("deny_unknown_fields")
        if d.get("tag"): cattrs.append('tag = "%s"' % d["tag"])
        if d["error"]: cattrs.append("error = %s" % d["error"])
        if d["deny"] == "fn": cattrs.append("deny_unknown_fields = %s" % info["denyfn"])
        if d["validate"]: cattrs.append("validate = %s -> %s" % (info["vfn"], d["error"] if d["validate"] == "own" else "FnErr"))
        gens = info.get("generics") or []
        for g in gens:
            if not g[2]:
                cattrs.append("where_predicate = %s: deserr::Deserr<%s>" % (g[0], d["error"] or "__Deserr_E"))
        gp = ("<%s>" % ", ".join(g[0] for g in gens)) if gens else ""
        gpb = ("<%s>" % ", ".join("%s: ToJ" % g[0] for g in gens)) if gens else ""
        if info["cfn"]:
            it = self.rust_ty[info["kids"][0]]
            if info["cfrom"] == "from": cattrs.append("from(%s%s) = %s" % ("&" if info["cref"] else "", it, info["cfn"]))
            else: cattrs.append("try_from(%s%s) = %s -> FnErr" % ("&" if info["cref"] else "", it, info["cfn"]))
        out = self.emit_fns(name) + ["#[derive(deserr::Deserr, Debug%s)]" % (", Clone, PartialEq, Eq, Hash, PartialOrd, Ord" if d.get("setelem") else "")]
        if cattrs: out.append("#[deserr(%s)]" % ", ".join(cattrs))
        out.append("#[allow(non_snake_case, non_camel_case_types, dead_code)]")
        if d["kind"] == "struct" and info["cfn"]:
            it = self.rust_ty[info["kids"][0]]
            out.append("pub struct %s { pub v: W<%d, %s> }" % (name, info["kids"][0], it))
            out.append("impl ToJ for %s {" % name)
            out.append("    fn to_j(&self) -> J {")
            out.append('        let mut r = rv("struct");')
            out.append('        r["name"] = json!("%s");' % name)
            out.append('        r["e"] = json!([{"k": "v", "v": self.v.to_j()}]);')
            out.append("        r")
            out.append("    }")
            out.append("}")
            return out
        if d["kind"] == "struct":
            out.append("pub struct %s%s {" % (name, gp))
            out += self.emit_fields(info["fields"], d["fields"], "    ", True)
            out.append("}")
            out.append("impl%s ToJ for %s%s {" % (gpb, name, gp))
            out.append("    fn to_j(&self) -> J {")
            out.append('        let mut r = rv("struct");')
            out.append('        r["name"] = json!("%s");' % name)
            out.append('        r["e"] = json!([%s]);' % ", ".join('{"k": "%s", "v": self.%s.to_j()}' % (f["ident"], f["src_ident"]) for f in info["fields"]))
            out.append("        r")
            out.append("    }")
            out.append("}")
        else:
            out.append("pub enum %s%s {" % (name, gp))
            for v, vs in zip(info["variants"], d["variants"]):
                va = []
                if vs["rename"] is not None: va.append('rename = "%s"' % vs["rename"])
                if vs["rename_all"]: va.append("rename_all = %s" % vs["rename_all"])
                pre = ("".join("    #[deserr(%s)]\n" % x for x in va) if vs.get("split") else "    #[deserr(%s)]\n" % ", ".join(va)) if va else ""
                if vs["fields"] is None:
                    out.append("%s    %s," % (pre, vs["ident"]))
                else:
                    out.append("%s    %s {" % (pre, vs["ident"]))
                    out += self.emit_fields(v["fields"], vs["fields"], "        ", False)
                    out.append("    },")
            out.append("}")
            out.append("impl%s ToJ for %s%s {" % (gpb, name, gp))
            out.append("    fn to_j(&self) -> J {")
            out.append('        let mut r = rv("variant");')
            out.append("        match self {")
            for v, vs in zip(info["variants"], d["variants"]):
                if vs["fields"] is None:
                    out.append('            %s::%s => { r["name"] = json!("%s"); }' % (name, vs["ident"], v["ident"]))
                else:
                    binds = ", ".join(f["src_ident"] for f in v["fields"])
                    out.append('            %s::%s { %s } => {' % (name, vs["ident"], binds))
                    out.append('                r["name"] = json!("%s");' % v["ident"])
                    out.append('                r["e"] = json!([%s]);' % ", ".join('{"k": "%s", "v": %s.to_j()}' % (f["ident"], f["src_ident"]) for f in v["fields"]))
                    out.append("            }")
            out.append("        }")
            out.append("        r")
            out.append("    }")
            out.append("}")
        return out

    def fixed_error(self, ty):
        if ty[0] == "bare":
            return False
        """does the type (transitively) contain a derived type that fixes its error type?"""
        k = ty[0]
        if k == "ref":
            d = self.defs[ty[1]]
            if d["error"]:
                return True
            fs = list(d.get("fields") or []) + [f for v in d.get("variants", []) for f in (v["fields"] or [])]
            return any(self.fixed_error(f["ty"]) for f in fs)
        if k in ("vec", "hset", "bset", "opt", "box"): return self.fixed_error(ty[1])
        if k == "arr": return self.fixed_error(ty[1])
        if k == "tup": return any(self.fixed_error(t) for t in ty[1])
        if k in ("hmap", "bmap"): return self.fixed_error(ty[2])
        return False

    # ---- probe-free twins ------------------------------------------------------------------------
    def bare_ty(self, ty):
        """the Rust type of a type expression written the way a user writes it: no probe anywhere (the derive sees `Option<u8>`,
        `Vec<bool>`, ... as such); derived types are replaced by their probe-free twins B_<Name>"""
        k = ty[0]
        if k == "scalar": return SCALAR_RUST[ty[1]]
        if k == "vec": return "Vec<%s>" % self.bare_ty(ty[1])
        if k == "hset": return "std::collections::HashSet<%s>" % self.bare_ty(ty[1])
        if k == "bset": return "std::collections::BTreeSet<%s>" % self.bare_ty(ty[1])
        if k == "opt": return "Option<%s>" % self.bare_ty(ty[1])
        if k == "box": return "Box<%s>" % self.bare_ty(ty[1])
        if k == "arr": return "[%s; %d]" % (self.bare_ty(ty[1]), ty[2])
        if k == "tup": return "(%s)" % ", ".join(self.bare_ty(t) for t in ty[1])
        if k == "hmap": return "std::collections::HashMap<%s, %s>" % (ty[1], self.bare_ty(ty[2]))
        if k == "bmap": return "std::collections::BTreeMap<%s, %s>" % (ty[1], self.bare_ty(ty[2]))
        if k == "cs": return "serde_cs::vec::CS<%s>" % ty[1]
        if k == "jvalue": return "serde_json::Value"
        if k == "phantom": return "std::marker::PhantomData<u8>"
        if k == "ref":
            self.need_bare(ty[1])
            return "B_" + ty[1]
        raise ValueError(ty)

    def need_bare(self, name):
        if name in self.bare_defs:
            return
        d = self.defs[name]
        fs = list(d.get("fields") or []) + [f for v in d.get("variants", []) for f in (v["fields"] or [])]
        if d.get("cfrom") or d.get("validate") or d.get("deny") == "fn" or d.get("error") or \
           any(f.get("from") or f["map"] or f["missing_fn"] or f["error"] or f.get("param") for f in fs):
            raise ValueError("no probe-free twin for %s: it uses user functions / a fixed error type / type parameters" % name)
        self.bare_defs.append(name)
        for f in fs:
            self.bare_ty(f["ty"])

    def bare_field_attrs(self, src):
        a = []
        if src["rename"] is not None: a.append('rename = "%s"' % src["rename"])
        if src["default"] == "trait": a.append("default")
        elif src["default"] is not None: a.append("default = %s" % src["default"][1])
        if src["skip"]: a.append("skip")
        if src.get("split"):
            return "".join("#[deserr(%s)] " % x for x in a)
        return ("#[deserr(%s)] " % ", ".join(a)) if a else ""

    def emit_bare_def(self, name):
        d = self.defs[name]
        cattrs = []
        if d["rename_all"]: cattrs.append("rename_all = %s" % d["rename_all"])
        if d["deny"] == "default": cattrs.append("deny_unknown_fields")
        if d.get("tag"): cattrs.append('tag = "%s"' % d["tag"])
        out = ["#[derive(deserr::Deserr, Debug, Clone, PartialEq, Eq, Hash, PartialOrd, Ord)]" if d.get("setelem") else "#[derive(deserr::Deserr, Debug)]"]
        if cattrs: out.append("#[deserr(%s)]" % ", ".join(cattrs))
        out.append("#[allow(non_snake_case, non_camel_case_types, dead_code)]")
        if d["kind"] == "struct":
            out.append("pub struct B_%s {" % name)
            for f in d["fields"]:
                out.append("    %spub %s: %s," % (self.bare_field_attrs(f), f["ident"], self.bare_ty(f["ty"])))
            out.append("}")
            out.append("impl ToJ for B_%s {" % name)
            out.append("    fn to_j(&self) -> J {")
            out.append('        let mut r = rv("struct");')
            out.append('        r["name"] = json!("%s");' % name)
            out.append('        r["e"] = json!([%s]);' % ", ".join('{"k": "%s", "v": self.%s.to_j()}' % (unraw(f["ident"]), f["ident"]) for f in d["fields"]))
            out.append("        r")
            out.append("    }")
            out.append("}")
        else:
            out.append("pub enum B_%s {" % name)
            for vs in d["variants"]:
                va = []
                if vs["rename"] is not None: va.append('rename = "%s"' % vs["rename"])
                if vs["rename_all"]: va.append("rename_all = %s" % vs["rename_all"])
                pre = ("".join("    #[deserr(%s)]\n" % x for x in va) if vs.get("split") else "    #[deserr(%s)]\n" % ", ".join(va)) if va else ""
                if vs["fields"] is None:
                    out.append("%s    %s," % (pre, vs["ident"]))
                else:
                    out.append("%s    %s {" % (pre, vs["ident"]))
                    for f in vs["fields"]:
                        out.append("        %s%s: %s," % (self.bare_field_attrs(f), f["ident"], self.bare_ty(f["ty"])))
                    out.append("    },")
            out.append("}")
            out.append("impl ToJ for B_%s {" % name)
            out.append("    fn to_j(&self) -> J {")
            out.append('        let mut r = rv("variant");')
            out.append("        match self {")
            for vs in d["variants"]:
                if vs["fields"] is None:
                    out.append('            B_%s::%s => { r["name"] = json!("%s"); }' % (name, vs["ident"], unraw(vs["ident"])))
                else:
                    names = [f["ident"] for f in vs["fields"]]
                    out.append("            B_%s::%s { %s } => {" % (name, vs["ident"], ", ".join(names)))
                    out.append('                r["name"] = json!("%s");' % unraw(vs["ident"]))
                    out.append('                r["e"] = json!([%s]);' % ", ".join('{"k": "%s", "v": %s.to_j()}' % (unraw(n), n) for n in names))
                    out.append("            }")
            out.append("        }")
            out.append("        r")
            out.append("    }")
            out.append("}")
        return out

    def run(self):
        self.bare_defs = []
        self.bare_entries = {}      # entry node id -> probe-free Rust type
        for e in self.entries:
            if e[0] == "bare":
                nid = self.occ(("ref", e[1]))
                self.bare_entries[nid] = self.bare_ty(("ref", e[1]))
                self.entry_ids.append(nid)
            else:
                self.entry_ids.append(self.occ(e))
        rs = ["// @generated by tools/gen_catalogue.py - do not edit",
              "use crate::rt::{bump, designated, designated_v, loc_rv, log_call, log_ret_err, log_ret_ok, new_fn_err, rv, str_rv, strs_rv, FnErr, RecErr, RecErr2, ToJ, P, W};",
              "use crate::core::{go, go_rec, Done};",
              "use crate::ov::OV;",
              "use serde_json::{json, Value as J};",
              ""]
        for name in self.def_order:
            if name in self.def_info:
                rs += self.emit_def(name)
                rs.append("")
        rs.append("// ---- probe-free twins: the same definitions written the way a user writes them (no probe in any field type)")
        for name in self.bare_defs:
            rs += self.emit_bare_def(name)
            rs.append("")
        rs.append("pub fn run_entry(id: u32, src: &str, etype: &str, payload: &OV) -> Done {")
        rs.append("    match id {")
        for nid, ety in zip(self.entry_ids, self.entries):
            if nid in self.bare_entries:
                rs.append("        %d => go::<%s>(src, etype, payload)," % (nid, self.bare_entries[nid]))
                continue
            rs.append("        %d => %s::<%s>(src, etype, payload)," % (nid, "go_rec" if self.fixed_error(ety) else "go", self.rust_ty[nid]))
        rs.append('        _ => panic!("unknown catalogue entry {id}"),')
        rs.append("    }")
        rs.append("}")
        rs.append("pub const ENTRY_IDS: &[u32] = &[%s];" % ", ".join(str(x) for x in self.entry_ids))
        rs.append("pub const BARE_IDS: &[u32] = &[%s];" % ", ".join(str(x) for x in sorted(self.bare_entries)))
        return "\n".join(rs) + "\n"


def strip_node(n):
    """node table as the TLA+ spec sees it (uniform records, no generator-only keys)"""
    def fld(f):
        return {"ident": f["ident"], "node": f["node"], "rename": f["rename"], "dflt": f["dflt"], "dval": f["dval"], "skip": f["skip"],
                "mapfn": f["mapfn"], "frm": f["frm"], "fromref": f["fromref"], "fn": f["fn"], "missfn": f["missfn"], "ety": f["ety"]}
    m = dict(n)
    m["fields"] = [fld(f) for f in n["fields"]]
    m["variants"] = [{"ident": v["ident"], "rename": v["rename"], "rename_all": v["rename_all"], "unit": v["unit"],
                      "fields": [fld(f) for f in v["fields"]]} for v in n["variants"]]
    return m


def generate(extra_defs=(), extra_entries=(), write=True, out_rs=None, out_json=None):
    """base catalogue (+ extra definitions / entries).  Without out_rs / out_json the committed files are (re)written."""
    g = Gen(list(C.DEFS) + list(extra_defs), list(C.ENTRIES) + list(extra_entries))
    rust = g.run()
    table = {"nodes": [strip_node(n) for n in g.nodes], "entries": g.entry_ids, "bare": sorted(g.bare_entries)}
    if write:
        os.makedirs(os.path.join(V, "catalogue"), exist_ok=True)
        p = out_rs or os.path.join(os.environ.get("VERIF_HARNESS_DIR", os.path.join(V, "harness")), "dh", "src", "gen_cat.rs")
        old = open(p).read() if os.path.exists(p) else None
        if old != rust:
            os.makedirs(os.path.dirname(p), exist_ok=True)
            open(p, "w").write(rust)
        cj = json.dumps(table, sort_keys=True)
        pj = out_json or os.path.join(V, "catalogue", "catalogue.json")
        if not os.path.exists(pj) or open(pj).read() != cj:
            os.makedirs(os.path.dirname(pj), exist_ok=True)
            open(pj, "w").write(cj)
    return g, table


if __name__ == "__main__":
    g, table = generate()
    print("catalogue: %d nodes, %d entries" % (len(table["nodes"]), len(table["entries"])))
