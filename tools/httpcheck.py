"""C20: the HTTP extractors add nothing and lose nothing.

  1. TLC checks the pipeline model DHttp (framework extractor -> deserr::deserialize -> respond) against the independently
     worded clauses of the property and prints the request classes (framework x error type x framework outcome x deserialize
     outcome).
  2. The harness `hh` (built with deserr's actix-web and axum features) sends concrete requests of every class - bodies valid,
     ill-typed at depth 0/1/2, malformed, empty, oversized; right, wrong and absent content types; actix JsonConfig variants
     registered as app data; query strings - through the deserr extractor AND through the framework's own extractor followed by
     deserr::deserialize, on identically built requests, and logs what a client would observe.
  3. TLC validates every line against the composition law (Trace_http).
"""
import json, os, random, time
import vlib, helpers
from vlib import log

VALID = {
    "Doc": ['{"name":"bob"}', '{"name":"bob","age":42}', '{"name":"","age":null,"tags":["a","b"]}',
            '{"name":"a much longer name than the others, well over the small limit of thirty-two bytes","age":7}'],
    "Outer": ['{"inner":{"name":"x"}}', '{"inner":{"name":"x","age":1},"list":[1,2,3]}'],
    "Value": ['null', '[1,{"a":[true,1.5,"x"]}]', '{"k":18446744073709551615}', '"s"'],
}
ILL = {
    "Doc": ['[1,2,3]', 'null', '5', '{"name":1}', '{}', '{"name":"bob","age":300}', '{"name":"bob","nmae":"x"}', '{"name":"b","tags":["a",1]}',
            '{"name":"b","tags":{"a":1}}'],
    "Outer": ['{"inner":{"name":1}}', '{"inner":{},"list":[1]}', '{"inner":{"name":"x"},"list":[1,"2"]}', '{"inner":[],"list":[]}', '{"list":[1,2,300]}',
              '{"inner":{"name":"x","zz":1}}'],
    "Value": [],
}
MALFORMED = ['{"name":"bob"', '{"name":}', '', 'not json at all, just some text that is longer than thirty-two bytes', '{"a":1}}', '[1,2', 'ÿþ']
CTYPES = ["application/json", "application/json; charset=utf-8", "application/vnd.api+json", "text/plain", "application/x-www-form-urlencoded", "garbage", "none"]
CONFIGS = ["default", "explicit", "limit32", "anytype", "handler"]
QUERIES_OK = ["q=x", "q=hello&pageSize=10", "q=", "q=a%20b&pageSize="]
QUERIES_ILL = ["", "pageSize=3", "q=x&zz=1", "q=x&page_size=3", "Q=x", "q=x&pageSize=1&extra=2"]
QUERIES_ODD = ["q=x&q=y", "q", "=x", "q=%FF", "q=x&&", "q=%zz", "a[b]=1", "q=x;pageSize=2"]


def requests(tier, seed):
    rng = random.Random(seed)
    out = []
    for et in ("json", "api"):
        for ty in ("Doc", "Outer", "Value"):
            bodies = VALID[ty] + ILL[ty] + MALFORMED
            for body in bodies:
                for ct in CTYPES:
                    out.append({"fw": "axum", "ty": ty, "etype": et, "cfg": "default", "ctype": ct, "body": body})
                    for cfg in (CONFIGS if ty == "Doc" else ["default", "limit32"]):
                        out.append({"fw": "actix", "ty": ty, "etype": et, "cfg": cfg, "ctype": ct, "body": body})
        for q in QUERIES_OK + QUERIES_ILL + QUERIES_ODD:
            out.append({"fw": "actix_query", "ty": "Params", "etype": et, "cfg": "default", "ctype": "none", "body": q})
            out.append({"fw": "actix_query", "ty": "Value", "etype": et, "cfg": "default", "ctype": "none", "body": q})
        # oversized bodies: axum's default limit is 2 MiB, actix's 2 MiB for JSON as well
        big = '{"name":"%s"}' % ("a" * (2 * 1024 * 1024 + 100))
        out.append({"fw": "axum", "ty": "Doc", "etype": et, "cfg": "default", "ctype": "application/json", "body": big})
        out.append({"fw": "actix", "ty": "Doc", "etype": et, "cfg": "default", "ctype": "application/json", "body": big})
    n = 0 if tier == "quick" else 20000

    def rand_doc(depth):
        k = rng.random()
        if depth <= 0 or k < 0.4:
            return rng.choice(['1', '-2', '1.5', 'true', 'null', '"s"', '"bob"', '300', '[]', '{}'])
        if k < 0.7:
            return "[" + ",".join(rand_doc(depth - 1) for _ in range(rng.randint(0, 3))) + "]"
        keys = rng.sample(["name", "age", "tags", "inner", "list", "zz", "nmae"], rng.randint(0, 4))
        return "{" + ",".join('"%s":%s' % (kk, rand_doc(depth - 1)) for kk in keys) + "}"
    for _ in range(n):
        body = rand_doc(3)
        if rng.random() < 0.15:
            body = body[: rng.randint(0, max(0, len(body) - 1))]
        fw = rng.choice(["actix", "axum"])
        out.append({"fw": fw, "ty": rng.choice(["Doc", "Outer", "Value"]), "etype": rng.choice(["json", "api"]),
                    "cfg": rng.choice(CONFIGS) if fw == "actix" else "default", "ctype": rng.choice(CTYPES), "body": body})
    return out


def classify(ev):
    f = "doc" if ev["fwres"]["ok"] else "rejected"
    d = "none" if not ev["deser"]["ran"] else ("value" if ev["deser"]["ok"] else "error")
    return (ev["inp"]["fw"], ev["inp"]["etype"], f, d)


def run(pid, tier):
    t0 = time.time()
    vlib.ensure_dirs()
    r = vlib.run_tlc("MC_http", "MC_http.cfg", "C20-mc", workers=2, timeout=600)
    if not r.ok:
        log(r.error_text[:1500])
        path = vlib.save_replay(pid, "mc", {"kind": "tlc-counterexample", "module": "MC_http", "cfg": "MC_http.cfg", "output": r.error_text})
        vlib.write_evidence(pid, tier, "model_checking", {"evaluations": 1, "distinct_nontrivial": 0, "explanation": "TLC error", "samples": [r.error_text[:300]]}, [], time.time() - t0, 1)
        return vlib.finish(pid, [(path, "TLC reports an error on DHttp")])
    classes = vlib.tagged_json(r, "REPLAY")
    want = set()
    for c in classes:
        f = "doc" if c["fclass"] == "doc" else "rejected"
        if c["fw"] == "actix_query" and f == "rejected":
            continue    # a query string is rarely refused by the framework; covered when it is, not demanded
        want.add((c["fw"], c["etype"], f, c["dclass"]))
    log("[mc] MC_http: %d distinct states, %d request classes" % (r.distinct, len(want)))
    binary = vlib.build_harness("hh", timeout=3000)
    reqs = requests(tier, vlib.seed())
    tdir = os.path.join(vlib.WORK, "traces")
    rin = os.path.join(tdir, "%s-in.ndjson" % pid)
    with open(rin, "w") as f:
        for q in reqs:
            f.write(json.dumps(q) + "\n")
    tp = os.path.join(tdir, "%s-http.ndjson" % pid)
    vlib.run_harness(binary, [], stdin_path=rin, stdout_path=tp, timeout=3000)
    hit = {}
    samples = []
    with open(tp) as f:
        for ln in f:
            ev = json.loads(ln)
            c = classify(ev)
            hit[c] = hit.get(c, 0) + 1
            if len(samples) < 3 and len(ev["inp"]["body"]) < 200:
                samples.append({"request": ev["inp"], "framework": ev["fwres"], "deserialize": {k: ev["deser"][k] for k in ("ran", "ok", "msg")}, "extractor": ev["ext"]})
    missing = [c for c in want if c not in hit]
    if missing:
        raise vlib.ToolError("request classes of the model not exercised: %s" % missing)
    n, results, bad, st = helpers.validate_sharded(pid, "Trace_http", "Trace_http.cfg", tp, 6)
    violations = []
    for b in bad:
        ev = b["events"][0]
        path = vlib.save_replay(pid, "http", {"property": pid, "input": ev["inp"], "observed": ev})
        violations.append((path, "request %s: extractor %s vs framework %s + deserialize %s" %
                           (json.dumps(ev["inp"])[:200], json.dumps(ev["ext"])[:160], json.dumps(ev["fwres"])[:120], json.dumps(ev["deser"])[:160])))
    cov = {"states": r.distinct + st, "transitions": r.generated + n, "traces_validated_against_impl": n, "samples": samples,
           "evaluations": n, "distinct_nontrivial": len({json.dumps(q, sort_keys=True) for q in reqs if q["body"]}),
           "rule": "one line per concrete request: 3 frameworks (actix JSON with 5 JsonConfig variants as app data, axum JSON, actix query) x 2 error types "
                   "(JsonError, a user type rendering 422) x 4 targets x bodies valid / ill-typed at depth 0,1,2 / malformed / empty / oversized x 7 content types; "
                   "thorough adds 20 000 seeded random requests; non-trivial = distinct requests with a non-empty body / query",
           "exhaustive": False, "classes_of_the_model": sorted(["/".join(c) for c in want]), "class_hits": {"/".join(k): v for k, v in sorted(hit.items())},
           "accepted": sum(x.get("accepted", 0) for x in results), "framework_rejections": sum(x.get("framework_rejections", 0) for x in results),
           "deserr_rejections": sum(x.get("deserr_rejections", 0) for x in results),
           "checker_cmd": "tlc MC_http + harness hh (actix-web, axum in-process) + tlc Trace_http"}
    vlib.write_evidence(pid, tier, "model_checking", cov,
                        ["actix-web and axum are trusted as frameworks: their own Json<Value> / Query<Value> extractors define 'a document'",
                         "requests are built twice, identically, for the two sides of the comparison",
                         "QueryParamError has no HTTP rendering in deserr; the query extractor is exercised with JsonError and a user error type"],
                        time.time() - t0, len(violations))
    return vlib.finish(pid, violations)


def replay(pid, path):
    obj = json.load(open(path))
    if obj.get("kind") == "tlc-counterexample":
        print(obj["output"])
        return 1
    binary = vlib.build_harness("hh", timeout=3000)
    tdir = os.path.join(vlib.WORK, "traces")
    rin = os.path.join(tdir, "%s-rp-in.ndjson" % pid)
    with open(rin, "w") as f:
        f.write(json.dumps(obj["input"]) + "\n")
    tp = os.path.join(tdir, "%s-rp.ndjson" % pid)
    vlib.run_harness(binary, [], stdin_path=rin, stdout_path=tp)
    n, results, bad, st = helpers.validate_sharded(pid, "Trace_http", "Trace_http.cfg", tp, 1)
    print(open(tp).read()[:3000])
    if bad:
        print("VIOLATION property=%s replay=%s" % (pid, path))
        return 1
    print("OK property=%s (replayed request no longer violates)" % pid)
    return 0
