#!/bin/sh
# manual TLC runs with the same JVM options the checks use:  tools/tlc.sh -workers 8 -config X.cfg X.tla
exec java -XX:+UseParallelGC -Xss1g -Xmx6g -cp /opt/veriftools/tla/tla2tools.jar:/opt/veriftools/tla/CommunityModules-deps.jar tlc2.TLC -metadir /verif/work/tlc/manual -cleanup -noGenerateSpecTE "$@"
