#!/usr/bin/env python3
"""Copies the round-3 outputs of the seeding sub-agents (/tmp/seedout4/<Cxx>/{a,b}) into seeded/<Cxx>-e (breaks the property) and
seeded/<Cxx>-n (changes behaviour, property still holds: every check must stay quiet)."""
import json, os, shutil, sys
V = os.path.dirname(os.path.dirname(os.path.abspath(__file__)))
for pid in sys.argv[1:]:
    for sub, suf, kind in (("a", "f", "violating"), ("b", "m", "neutral")):
        src = "/tmp/seedout4/%s/%s" % (pid, sub)
        if not os.path.exists(src + "/patch.diff"):
            print("missing", src); continue
        dst = os.path.join(V, "seeded", "%s-%s" % (pid, suf))
        os.makedirs(dst, exist_ok=True)
        for f in os.listdir(src):
            if f in ("patch.diff", "demo.rs", "demo.sh", "notes.md", "summary.txt"):
                shutil.copy(os.path.join(src, f), os.path.join(dst, f))
        mp = os.path.join(dst, "meta.json")
        meta = json.load(open(mp)) if os.path.exists(mp) else {}
        meta.update({"property": pid, "kind": kind, "checks": meta.get("checks", [pid]),
                     "origin": "independent sub-agent, fourth round (told the property text and one line per earlier change to avoid; asked for one violation and one "
                               "behaviour change under which the property still holds)"})
        sm = os.path.join(src, "summary.txt")
        if os.path.exists(sm):
            meta["needs_to_manifest" if kind == "violating" else "what_changes"] = open(sm).read().strip()[:400]
        if kind == "neutral":
            meta["expect"] = "no check raises an alarm"
        json.dump(meta, open(mp, "w"), indent=1)
        print("imported", dst)
