#!/usr/bin/env python3
"""Confirms seeded changes in a scratch worktree (never in /repo): the patch applies, the existing suite still passes with it,
the demonstration passes without it and fails with it.  Records the facts in seeded/<id>/meta.json.

  tools/confirm_seed.py <seed-id> ..."""
import json, os, re, shutil, subprocess, sys
V = os.path.dirname(os.path.dirname(os.path.abspath(__file__)))
R = os.path.join(os.environ.get("TMPDIR", "/tmp"), "deserr-confirm", "repo")


def sh(cmd, timeout=3600):
    p = subprocess.run(cmd, cwd=R, shell=True, stdout=subprocess.PIPE, stderr=subprocess.STDOUT, text=True, timeout=timeout)
    return p.returncode, p.stdout


def main():
    if not os.path.exists(R):
        os.makedirs(os.path.dirname(R), exist_ok=True)
        subprocess.check_call("git -C /repo worktree add -q --detach %s HEAD" % R, shell=True)
    for sid in sys.argv[1:]:
        d = os.path.join(V, "seeded", sid)
        meta = json.load(open(os.path.join(d, "meta.json")))
        feat = " --features actix-web,axum" if sid.startswith("C20") else ""
        sh("git checkout -q -- . && git clean -fdq tests examples")
        res = {}
        demo_rs, demo_sh = os.path.join(d, "demo.rs"), os.path.join(d, "demo.sh")
        if os.path.exists(demo_rs):
            shutil.copy(demo_rs, os.path.join(R, "tests", "seed_demo.rs"))
            rc, _ = sh("cargo test --offline%s --test seed_demo" % feat)
            res["demo_passes_without_patch"] = rc == 0
        elif os.path.exists(demo_sh):
            rc, _ = sh("bash %s" % demo_sh)
            res["demo_passes_without_patch"] = rc == 0
        rc, out = sh("git apply %s/patch.diff" % d)
        res["patch_applies"] = rc == 0
        sh("mv tests/seed_demo.rs /tmp/deserr-confirm/seed_demo.rs.bak 2>/dev/null")
        rc, out = sh("cargo test --offline%s 2>&1" % feat)
        passed = sum(int(m.group(1)) for m in re.finditer(r"test result: \w+\. (\d+) passed", out))
        failed = sum(int(m.group(1)) for m in re.finditer(r"(\d+) failed", out))
        res["existing_suite_with_patch"] = {"passed": passed, "failed": failed, "compiles": "could not compile" not in out}
        sh("mv /tmp/deserr-confirm/seed_demo.rs.bak tests/seed_demo.rs 2>/dev/null")
        if os.path.exists(demo_rs):
            rc, _ = sh("cargo test --offline%s --test seed_demo" % feat)
            res["demo_fails_with_patch"] = rc != 0
        elif os.path.exists(demo_sh):
            rc, _ = sh("bash %s" % demo_sh)
            res["demo_fails_with_patch"] = rc != 0
        res["commands"] = "cargo test --offline%s (suite) and cargo test --offline --test seed_demo / demo.sh, in a scratch worktree, before and after git apply patch.diff" % feat
        sh("git checkout -q -- . && git clean -fdq tests examples")
        meta["confirmed_in_scratch_worktree"] = res
        json.dump(meta, open(os.path.join(d, "meta.json"), "w"), indent=1)
        print(sid, json.dumps(res), flush=True)
    return 0


if __name__ == "__main__":
    sys.exit(main())
