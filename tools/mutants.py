#!/usr/bin/env python3
"""Runs registered checks against a scratch copy of /repo with one seeded change applied (never touches /repo).

  tools/mutants.py <seed-id> [<seed-id> ...] [--props C01,C02] [--tier quick]

A seed lives in /verif/seeded/<id>/ (patch.diff, meta.json); its meta.json names the property it breaks.  The scratch
worktree and a copy of the harness live under $TMPDIR/deserr-mut and are removed afterwards (--keep to keep them warm
between invocations)."""
import argparse, json, os, shutil, subprocess, sys, tempfile
V = os.path.dirname(os.path.dirname(os.path.abspath(__file__)))


def sh(cmd, cwd=None, env=None, timeout=7200):
    return subprocess.run(cmd, cwd=cwd, env=env, shell=True, stdout=subprocess.PIPE, stderr=subprocess.STDOUT, text=True, timeout=timeout)


def main():
    ap = argparse.ArgumentParser()
    ap.add_argument("seeds", nargs="+")
    ap.add_argument("--props", default="")
    ap.add_argument("--tier", default="quick")
    ap.add_argument("--keep", action="store_true")
    ap.add_argument("--scratch", default=os.path.join(os.environ.get("TMPDIR", "/tmp"), "deserr-mut"))
    ap.add_argument("--seed-dir", default=os.path.join(V, "seeded"))
    a = ap.parse_args()
    S = a.scratch
    repo = os.path.join(S, "repo")
    if not os.path.exists(repo):
        os.makedirs(S, exist_ok=True)
        r = sh("git -C /repo worktree add -q --detach %s HEAD" % repo)
        if r.returncode != 0:
            print(r.stdout); return 2
    sh("git checkout -q -- .", cwd=repo)
    if not os.path.exists(os.path.join(repo, "Cargo.lock")):
        shutil.copyfile("/repo/Cargo.lock", os.path.join(repo, "Cargo.lock"))      # the lock file is not tracked in /repo
    # a private snapshot of the whole framework, so that edits to /verif while the sweep runs cannot disturb it
    sv = os.path.join(S, "verif")
    os.makedirs(sv, exist_ok=True)
    r = sh("rsync -a --delete --exclude work --exclude .git --exclude evidence --exclude seeded %s/ %s/" % (V, sv))
    if r.returncode != 0:
        print(r.stdout); return 2
    for sub in ("dh", "hh"):
        ct = os.path.join(sv, "harness", sub, "Cargo.toml")
        if os.path.exists(ct):
            t = open(ct).read().replace('path = "/repo"', 'path = "%s"' % repo)
            open(ct, "w").write(t)
    env = dict(os.environ, DESERR_REPO=repo)
    for k in ("VERIF_HARNESS_DIR", "VERIF_WORK", "VERIF_EVID"):
        env.pop(k, None)
    results = {}
    for sid in a.seeds:
        d = os.path.join(a.seed_dir, sid)
        meta = json.load(open(os.path.join(d, "meta.json"))) if os.path.exists(os.path.join(d, "meta.json")) else {}
        props = [p for p in a.props.split(",") if p] or meta.get("checks", [meta.get("property", sid[:3])])
        sh("git checkout -q -- .", cwd=repo)
        r = sh("git apply %s" % os.path.join(d, "patch.diff"), cwd=repo)
        if r.returncode != 0:
            results[sid] = {"error": "patch does not apply: " + r.stdout[-300:]}
            continue
        res = {}
        for p in props:
            r = sh("%s %s %s --tier %s" % (sys.executable, os.path.join(sv, "tools", "check.py"), p, a.tier), cwd=sv, env=env)
            lines = [l for l in r.stdout.splitlines() if l.startswith(("VIOLATION", "OK ", "KNOWN-FINDING", "TOOL-ERROR"))]
            neutral = meta.get("kind") == "neutral"       # behaviour changes, the property still holds: the check must stay quiet
            res[p] = {"rc": r.returncode, "verdict": ("false-alarm" if neutral else "caught") if r.returncode == 1 else
                      (("quiet" if neutral else "missed") if r.returncode == 0 else "tool-error"), "lines": lines[:3]}
            ev = os.path.join(sv, "evidence", p + ".json")
            if os.path.exists(ev):
                try:
                    res[p]["by_property"] = json.load(open(ev))["coverage"].get("violations_by_property_in_this_trace")
                except Exception:
                    pass
            if r.returncode == 2:
                res[p]["tail"] = r.stdout[-600:]
        sh("git checkout -q -- .", cwd=repo)
        results[sid] = res
        print(sid, json.dumps(res), flush=True)
    if not a.keep:
        sh("git -C /repo worktree remove --force %s" % repo)
        shutil.rmtree(S, ignore_errors=True)
    return 0


if __name__ == "__main__":
    sys.exit(main())
