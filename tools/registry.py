"""Property id -> (run(pid, tier), replay(pid, path))."""
import helpers

ASSUME_COMMON = [
    "TLC 1.8.0 and the CommunityModules Json/IOUtils overrides are trusted",
    "rustc/cargo and std are trusted; the harness only encodes inputs/outputs mechanically",
]

C19 = {
    "sub": "ptr",
    "mc": {
        "quick": [{"module": "MC_pointer", "cfg": "MC_pointer.cfg", "workers": 4}],
        "thorough": [{"module": "MC_pointer", "cfg": "MC_pointer_thorough.cfg", "workers": 8, "timeout": 1200}],
    },
    "replay_args": ["replay"],
    "random_args": {"quick": [["random", "300", "40"]], "thorough": [["random", "10000", "200"]]},
    "trace": ("Trace_pointer", "Trace_pointer.cfg"),
    "shards": {"quick": 6, "thorough": 12},
    "nontrivial": lambda ev: (repr(ev["inp"]["path"]) if len(ev["inp"]["path"]) >= 2 else None),
    "rule": "one run per path: every path of <= MaxLen steps over 2 keys x 2 indices enumerated by TLC (MC_pointer) and replayed "
            "through the real push_key/push_index with the four observations logged after every push, plus seeded random paths "
            "(unicode/empty keys, usize::MAX indices); non-trivial = distinct paths with >= 2 steps",
    "assumptions": ASSUME_COMMON + ["ValuePointer components are read through their derived Debug output (the component type is not exported)"],
}

C17 = {
    "sub": "kinds",
    "mc": {
        "quick": [{"module": "MC_kinds", "cfg": "MC_kinds.cfg", "workers": 8}],
        "thorough": [{"module": "MC_kinds", "cfg": "MC_kinds_thorough.cfg", "workers": 12, "timeout": 1800}],
    },
    "replay_args": ["replay"],
    "random_args": {"quick": [["subsets", "6"], ["random", "500", "12"]], "thorough": [["subsets", "40"], ["random", "20000", "14"]]},
    "trace": ("Trace_kinds", "Trace_kinds.cfg"),
    "shards": {"quick": 8, "thorough": 14},
    "nontrivial": lambda ev: (repr(ev["inp"]["kinds"]) if len(set(ev["inp"]["kinds"])) >= 2 else None),
    "rule": "one run per kind list: every sequence of <= 5 (quick) / 6 (thorough) kinds with repetitions enumerated by TLC "
            "(MC_kinds: transcription of sort+dedup+description_rec equals the set-based phrase, and is invariant under adjacent swaps) "
            "and replayed through the real value_kinds_description_json; plus all 256 subsets in seeded random permutations with "
            "repetitions and random lists up to length 12/14; non-trivial = distinct lists naming >= 2 different kinds",
    "assumptions": ASSUME_COMMON + ["the query-parameter description is specified as the constant 'a string' (documented in the source)"],
}

CHECKS = {
    "C17": (lambda pid, tier: helpers.run(pid, tier, C17), lambda pid, path: helpers.replay(pid, C17, path)),
    "C19": (lambda pid, tier: helpers.run(pid, tier, C19), lambda pid, path: helpers.replay(pid, C19, path)),
}
