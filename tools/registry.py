"""Property id -> (run(pid, tier), replay(pid, path))."""
import helpers
import corecheck
import derivecheck
import httpcheck

ASSUME_COMMON = [
    "TLC 1.8.0 and the CommunityModules Json/IOUtils overrides are trusted",
    "rustc/cargo and std are trusted; the harness only encodes inputs/outputs mechanically",
]

C19 = {
    "sub": "ptr",
    "mc": {
        "quick": [{"module": "MC_pointer", "cfg": "MC_pointer.cfg", "workers": 4}],
        "thorough": [{"module": "MC_pointer", "cfg": "MC_pointer_thorough.cfg", "workers": 8, "timeout": 1200}],
    },
    "replay_args": ["replay"],
    "random_args": {"quick": [["random", "300", "40"], ["tree", "300", "40"]], "thorough": [["random", "10000", "200"], ["tree", "10000", "120"]]},
    "trace": ("Trace_pointer", "Trace_pointer.cfg"),
    "shards": {"quick": 6, "thorough": 12},
    "nontrivial": lambda ev: (repr(ev["inp"].get("ops") or ev["inp"]["path"]) if len(ev["inp"].get("ops") or ev["inp"]["path"]) >= 2 else None),
    "rule": "one run per path: every path of <= MaxLen steps over 2 keys x 2 indices enumerated by TLC (MC_pointer) and replayed "
            "through the real push_key/push_index with the four observations logged after every push, plus seeded random paths "
            "(unicode/empty keys, usize::MAX indices) and seeded random walks over trees of locations (pushes and returns: siblings share a "
            "prefix, and the caller's location is observed again after every return); non-trivial = distinct paths / walks with >= 2 steps",
    "assumptions": ASSUME_COMMON + ["ValuePointer components are read through their derived Debug output (the component type is not exported)"],
}

C17 = {
    "sub": "kinds",
    "mc": {
        "quick": [{"module": "MC_kinds", "cfg": "MC_kinds.cfg", "workers": 8}],
        "thorough": [{"module": "MC_kinds", "cfg": "MC_kinds_thorough.cfg", "workers": 12, "timeout": 1800}],
    },
    "replay_args": ["replay"],
    "random_args": {"quick": [["subsets", "6"], ["random", "500", "12"]], "thorough": [["subsets", "40"], ["random", "20000", "14"]]},
    "probe_args": ["probe"],
    "probe_replay_input": {"kinds": []},
    "trace": ("Trace_kinds", "Trace_kinds.cfg"),
    "shards": {"quick": 8, "thorough": 14},
    "nontrivial": lambda ev: (repr(ev["inp"]["kinds"]) if len(set(ev["inp"]["kinds"])) >= 2 else None),
    "rule": "one run per kind list: every sequence of <= 5 (quick) / 6 (thorough) kinds with repetitions enumerated by TLC "
            "(MC_kinds: transcription of sort+dedup+description_rec equals the set-based phrase, and is invariant under adjacent swaps) "
            "and replayed through the real value_kinds_description_json; plus all 256 subsets in seeded random permutations with "
            "repetitions and random lists up to length 12/14; non-trivial = distinct lists naming >= 2 different kinds",
    "assumptions": ASSUME_COMMON + ["the individual kind names, the fallback text and which fixed order is used are read from the implementation once "
                                    "(probe line) - the property fixes none of them; 'a number' / 'an integer' and the join grammar are fixed by it",
                                    "the phrase is split into items by the harness; the specification re-joins the items and compares with the phrase"],
}

C18 = {
    "sub": "dym",
    "mc": {
        "quick": [{"module": "MC_dym", "cfg": "MC_dym_ind_quick.cfg", "workers": 8},
                  {"module": "MC_dym", "cfg": "MC_dym_pairs.cfg", "workers": 8},
                  {"module": "MC_dym", "cfg": "MC_dym_pairs_wide.cfg", "workers": 8}],
        "thorough": [{"module": "MC_dym", "cfg": "MC_dym_ind_thorough.cfg", "workers": 16, "timeout": 3000},
                     {"module": "MC_dym", "cfg": "MC_dym_pairs_thorough.cfg", "workers": 12, "timeout": 3000},
                     {"module": "MC_dym", "cfg": "MC_dym_pairs_wide.cfg", "workers": 8}],
    },
    "replay_args": ["replay"],
    "random_args": {"quick": [["random", "2000"]], "thorough": [["random", "60000"]]},
    "trace": ("Trace_dym", "Trace_dym.cfg"),
    "shards": {"quick": 8, "thorough": 14},
    "nontrivial": lambda ev: (repr((ev["inp"]["r"]["s"], [a["s"] for a in ev["inp"]["acc"]])) if ev["out"] != "" else None),
    "rule": "one run per (received, accepted list): TLC proves on every pair of strings over a 3-symbol alphabet (one 2-byte symbol) up to length 4 (quick) / 5 (thorough) "
            "that the Lowrance-Wagner DP is the shortest-path distance of the four-operation edit graph (Zero, Lipschitz, Descent) and checks the structural facts; "
            "every such pair (single candidate, and candidate + its reverse) plus a wide alphabet with a 4-byte symbol is replayed through the real did_you_mean; "
            "seeded random multi-candidate lists with ties, repeats and multi-byte strings around every byte threshold; non-trivial = distinct inputs for which a suggestion is returned",
    "assumptions": ASSUME_COMMON + ["the scalar-value sequence logged next to each string is s.chars() (mechanical encoding by the harness)"],
}

C05 = {
    "sub": "scalar",
    "mc": {
        "quick": [{"module": "MC_scalar", "cfg": "MC_scalar.cfg", "workers": 8}],
        "thorough": [{"module": "MC_scalar", "cfg": "MC_scalar.cfg", "workers": 8}],
    },
    "replay_args": ["replay"],
    "random_args": {"quick": [["sweep", "-70000", "70000"], ["random", "200"]],
                    "thorough": [["sweep", "-70000", "70000"], ["sweep", "2147400000", "2147500000"], ["sweep", "-2147500000", "-2147400000"], ["random", "20000"]]},
    "trace": ("Trace_scalar", "Trace_scalar.cfg"),
    "shards": {"quick": 12, "thorough": 14},
    "nontrivial": lambda ev: repr(ev["inp"]),
    "rule": "one run per (target, value) point or per run-length-encoded stretch of the integer sweep: TLC enumerates 30 targets x "
            "{0, 2^k-1, 2^k, 2^k+1 : k <= 64} in both integer forms (incl. non-negative NegativeInteger) x every other kind (17 400 points) "
            "and checks Outcome against independently worded facts; every point is replayed through the real impls via both value sources; "
            "every integer in [-70000, 70000] for every target, form and source is swept in Rust and validated by TLC per stretch (for all x in from..to); "
            "seeded random u64/i64/f64/strings and f32 double-rounding witnesses; distinct = distinct (target, value / stretch) inputs",
    "assumptions": ASSUME_COMMON + [
        "IEEE rounding of integer/float payloads into f32/f64 is decided by a harness-side oracle (correctly rounded str::parse of the exact decimal expansion), not by TLA+",
        "usize/isize are 64-bit on the platform running the check",
        "the harness extracts signed digit runs and the words 'zero'/'empty' from Unexpected messages mechanically"],
}

C13 = {
    "sub": "bridge",
    "mc": {
        "quick": [{"module": "MC_bridge", "cfg": "MC_bridge.cfg", "workers": 4}],
        "thorough": [{"module": "MC_bridge", "cfg": "MC_bridge.cfg", "workers": 4}],
    },
    "replay_args": ["replay"],
    "random_args": {"quick": [["random", "1500", "4"]], "thorough": [["random", "40000", "6"]]},
    "trace": ("Trace_bridge", "Trace_bridge.cfg"),
    "shards": {"quick": 8, "thorough": 14},
    "nontrivial": lambda ev: (ev.get("text") if any(n["t"] == "num" for n in ev.get("nodes", [])) or len(ev.get("nodes", [])) > 1 else None),
    "rule": "one run per JSON document: TLC enumerates 959 documents of depth <= 2, width <= 2 over number literals at every classification "
            "boundary (0, 1, 2^53+-1, i64::MAX, 2^63, u64::MAX, u64::MAX+1, -1, i64::MIN, i64::MIN-1, -0, fractions, exponents) and checks kind "
            "agreement and the round trip on the spec; every document and seeded random documents (depth <= 4/6, deep nests to 80) are parsed by "
            "serde_json and observed through kind(), into_value(), From<Value> and Deserr for Value; non-trivial = distinct texts containing a number or nesting",
    "assumptions": ASSUME_COMMON + ["serde_json is trusted as parser and as holder of numbers; how it holds a number is read from Number::to_string (sign / fraction / exponent)",
                                    "documents whose text serde_json itself refuses (e.g. 1E400) are skipped"],
}

CHECKS = {
    "C16": (derivecheck.run, derivecheck.replay),
    "C20": (httpcheck.run, httpcheck.replay),
    **{p: (corecheck.run, corecheck.replay) for p in corecheck.CORE_PROPS},
    "C13": (lambda pid, tier: helpers.run(pid, tier, C13), lambda pid, path: helpers.replay(pid, C13, path)),
    "C05": (lambda pid, tier: helpers.run(pid, tier, C05), lambda pid, path: helpers.replay(pid, C05, path)),
    "C18": (lambda pid, tier: helpers.run(pid, tier, C18), lambda pid, path: helpers.replay(pid, C18, path)),
    "C17": (lambda pid, tier: helpers.run(pid, tier, C17), lambda pid, path: helpers.replay(pid, C17, path)),
    "C19": (lambda pid, tier: helpers.run(pid, tier, C19), lambda pid, path: helpers.replay(pid, C19, path)),
}
