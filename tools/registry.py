"""Property id -> (run(pid, tier), replay(pid, path))."""
import helpers

ASSUME_COMMON = [
    "TLC 1.8.0 and the CommunityModules Json/IOUtils overrides are trusted",
    "rustc/cargo and std are trusted; the harness only encodes inputs/outputs mechanically",
]

C19 = {
    "sub": "ptr",
    "mc": {
        "quick": [{"module": "MC_pointer", "cfg": "MC_pointer.cfg", "workers": 4}],
        "thorough": [{"module": "MC_pointer", "cfg": "MC_pointer_thorough.cfg", "workers": 8, "timeout": 1200}],
    },
    "replay_args": ["replay"],
    "random_args": {"quick": [["random", "300", "40"]], "thorough": [["random", "10000", "200"]]},
    "trace": ("Trace_pointer", "Trace_pointer.cfg"),
    "shards": {"quick": 6, "thorough": 12},
    "nontrivial": lambda ev: (repr(ev["inp"]["path"]) if len(ev["inp"]["path"]) >= 2 else None),
    "rule": "one run per path: every path of <= MaxLen steps over 2 keys x 2 indices enumerated by TLC (MC_pointer) and replayed "
            "through the real push_key/push_index with the four observations logged after every push, plus seeded random paths "
            "(unicode/empty keys, usize::MAX indices); non-trivial = distinct paths with >= 2 steps",
    "assumptions": ASSUME_COMMON + ["ValuePointer components are read through their derived Debug output (the component type is not exported)"],
}

CHECKS = {
    "C19": (lambda pid, tier: helpers.run(pid, tier, C19), lambda pid, path: helpers.replay(pid, C19, path)),
}
