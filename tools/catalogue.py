"""The catalogue of target types - single source of truth.

From this description
  * gen_catalogue.py emits the Rust items (`#[derive(Deserr)]` types wrapped in probes, dispatcher)
    that are compiled against /repo's working tree, and
  * the node table `catalogue/catalogue.json` that the TLA+ machine interprets, and
  * the Python drivers derive type-directed payloads.

Type expressions:
  ("scalar", name) | ("vec", T) | ("hset", T) | ("bset", T) | ("arr", T, N) | ("tup", [T..]) | ("opt", T) | ("box", T)
  | ("hmap", K, T) | ("bmap", K, T) | ("cs", R) | ("jvalue",) | ("phantom",) | ("ref", Name)
Derived definitions live in DEFS (structs / enums), see the helper constructors below.
"""

def S(name):
    return ("scalar", name)

U8, I8, BOOL, STR, CHAR, UNIT, F64, F32 = S("u8"), S("i8"), S("bool"), S("String"), S("char"), S("unit"), S("f64"), S("f32")
U16, I16, U64, I64, NZU8, NZI8 = S("u16"), S("i16"), S("u64"), S("i64"), S("NonZeroU8"), S("NonZeroI8")
U32, I32, U128, I128, USIZE, ISIZE = S("u32"), S("i32"), S("u128"), S("i128"), S("usize"), S("isize")
NZU16, NZU64, NZI64, NZI128 = S("NonZeroU16"), S("NonZeroU64"), S("NonZeroI64"), S("NonZeroI128")


def field(ident, ty, rename=None, default=None, skip=False, mapfn=False, frm=None, missing_fn=False, error=None, param=None, needs=False, split=False):
    """default: None | "trait" | ("expr", rust_expr, rv); param: the field's Rust type is this type parameter of the definition
    (instantiated once, with `ty`); needs: the field carries `needs_predicate` (else the container carries a where_predicate)"""
    return {"ident": ident, "ty": ty, "rename": rename, "default": default, "skip": skip, "map": mapfn, "from": frm,
            "missing_fn": missing_fn, "error": error, "param": param, "needs": needs, "split": split}


def struct(name, fields, rename_all=None, deny=None, error=None, validate=False, cfrom=None, setelem=False):
    """setelem: the type also derives Eq / Hash / Ord so that it can be an element of a set"""
    return {"kind": "struct", "name": name, "fields": fields, "rename_all": rename_all, "deny": deny, "error": error,
            "validate": validate, "cfrom": cfrom, "setelem": setelem}


def variant(ident, fields=None, rename=None, rename_all=None, split=False):
    """split: every attribute of the variant in a #[deserr(..)] list of its own"""
    return {"ident": ident, "fields": fields, "rename": rename, "rename_all": rename_all, "split": split}


def enum(name, variants, tag=None, rename_all=None, deny=None, error=None, validate=False):
    return {"kind": "enum", "name": name, "variants": variants, "tag": tag, "rename_all": rename_all, "deny": deny,
            "error": error, "validate": validate}


def num_rv(n):
    sg = 0 if n == 0 else (1 if n > 0 else -1)
    return {"r": "num", "b": False, "sg": sg, "d": [int(c) for c in str(abs(n))], "s": "", "name": "", "e": []}


def rv(r, **kw):
    d = {"r": r, "b": False, "sg": 0, "d": [0], "s": "", "name": "", "e": []}
    d.update(kw)
    return d


DEFS = [
    struct("SPlain", [field("a", U8), field("b", BOOL)]),
    struct("SThree", [field("first", U8), field("second", STR), field("third", ("vec", BOOL))]),
    struct("SCamel", [field("my_a", U8), field("other_field_b", BOOL), field("plain", I8)], rename_all="camelCase"),
    struct("SLower", [field("myField", U8), field("b_c", BOOL)], rename_all="lowercase"),
    struct("SRename", [field("a", U8, rename="x"), field("b", BOOL, rename="a"), field("long_name", I8, rename="long_name2")]),
    struct("SRenameCamel", [field("my_a", U8, rename="my_a"), field("my_b", BOOL)], rename_all="camelCase"),
    struct("SDeny", [field("a", U8), field("b", ("opt", BOOL))], deny="default"),
    # identifiers with digits and acronyms (word boundaries of camelCase), non-ASCII identifiers (Unicode lower-casing)
    struct("SDigits", [field("sha256sum", U8), field("ipv4_addr", BOOL), field("field1", I8), field("x2y", U8, default="trait"), field("HTTPServer", U8, default="trait")],
           rename_all="camelCase", deny="default"),
    struct("SDigitsLower", [field("Sha256Sum", U8), field("B2B", BOOL)], rename_all="lowercase"),
    enum("EUnitUnicode", [variant("École"), variant("plain"), variant("Übermarkt"), variant("Ärger", rename="zorn")], rename_all="lowercase"),
    enum("ETagUnicode", [variant("Étoile", [field("näme", U8)]), variant("Øre")], tag="t", rename_all="lowercase"),
    # more than 20 members with a skipped one early: the accepted-keys list must still be in declaration order
    struct("SBig", [field("f01", U8, default="trait"), field("f02", U8, skip=True), field("f03", U8, default="trait")] +
                   [field("f%02d" % i, U8, default="trait") for i in range(4, 23)] + [field("required_one", BOOL)], deny="default"),
    struct("SRenameMore", [field("a", U8, rename="alpha", default="trait"), field("b_b", BOOL, rename="beta", default=("expr", "true", rv("bool", b=True))),
                           field("c_c", I8)], rename_all="camelCase", deny="default"),
    struct("SDefault", [field("a", U8), field("b", U8, default="trait"), field("c", U8, default=("expr", "7", num_rv(7))),
                        field("d", ("opt", U8))]),
    struct("SSkipMid", [field("a", U8), field("sk", STR, skip=True), field("b", BOOL)], deny="default"),
    struct("SSkipFirst", [field("s", U8, skip=True), field("a", STR), field("b", BOOL)]),
    struct("SSkipLast", [field("a", BOOL), field("b", U8), field("z", ("vec", U8), skip=True)], deny="default"),
    struct("SSkipDefault", [field("a", U8, skip=True, default=("expr", "9", num_rv(9))), field("b", BOOL, default="trait")]),
    struct("SMix", [field("my_a", U8), field("sk", U8, skip=True), field("list", ("vec", BOOL), default="trait"),
                    field("m", ("bmap", "String", ("arr", U8, 2))), field("hs", ("hset", STR))],
           rename_all="camelCase", deny="default"),
    struct("SEmpty", [], deny="default"),
    struct("SEmptyLoose", []),
    struct("SRaw", [field("r#type", U8), field("r#fn", BOOL)], deny="default"),
    struct("SNested", [field("inner", ("ref", "SPlain")), field("list", ("vec", ("ref", "SPlain"))), field("opt", ("opt", ("ref", "SDeny")))]),
    struct("SOpt", [field("a", ("opt", U8)), field("b", ("opt", ("vec", U8)))]),
    enum("EUnit", [variant("A"), variant("B"), variant("C", rename="sea")]),
    enum("EUnitLower", [variant("Ab"), variant("CdEf"), variant("G", rename="Gee")], rename_all="lowercase"),
    enum("EUnitCamel", [variant("AbCd"), variant("Ef")], rename_all="camelCase"),
    enum("ETag", [variant("A"), variant("B", [field("x", U8), field("y", BOOL)]), variant("C", [field("x", STR)])], tag="type"),
    enum("ETagCamel", [variant("UnitVar"), variant("NamedVar", [field("my_field", U8)]),
                       variant("Other", [field("my_field", U8), field("plain", BOOL)], rename_all="camelCase"),
                       variant("TailVar", [field("tail_field", U8), field("other_one", BOOL, default="trait")]),
                       variant("X", [field("aB", U8)], rename="custom", rename_all="lowercase"),
                       variant("LastVar", [field("myUpper", U8)])],
         tag="kind", rename_all="camelCase"),
    enum("ETagDeny", [variant("Ping", []), variant("V", [field("a", U8)]), variant("U")], tag="t", deny="default"),
    enum("ETagCollide", [variant("V", [field("x", U8)]), variant("W", [field("x", U8, default="trait"), field("y", BOOL)])], tag="x"),
    enum("ETagRaw", [variant("r#type"), variant("r#Move", [field("r#in", U8)])], tag="op"),
    enum("EOne", [variant("Only", [field("v", ("vec", U8))])], tag="tag"),
    struct("SWithEnums", [field("e", ("ref", "EUnit")), field("t", ("ref", "ETag")), field("o", ("opt", ("ref", "EUnitLower")))]),
    # ---- user functions: from / try_from / map / validate / custom missing / custom unknown / field error type.
    # These fix `error = RecErr` so that the functions can return the harness' FnErr.
    struct("FFrom", [field("a", U8, frm={"kind": "from", "ty": U8, "ref": False}), field("b", STR, frm={"kind": "from", "ty": STR, "ref": True}),
                     field("c", BOOL)], error="RecErr"),
    struct("FTry", [field("a", U8, frm={"kind": "try", "ty": U8, "ref": False}), field("b", BOOL),
                    field("c", STR, frm={"kind": "try", "ty": STR, "ref": True}, default=("expr", "String::from(\"dflt\")", rv("str", s="dflt")))],
           error="RecErr"),
    struct("FTryF", [field("x", U8, frm={"kind": "try", "ty": U8, "ref": False}, error="RecErr2"), field("y", U8, error="RecErr2"),
                     field("z", ("vec", U8), error="RecErr2")], error="RecErr", deny="default"),
    struct("FMap", [field("a", U8, mapfn=True), field("b", STR, mapfn=True, default=("expr", "String::from(\"d\")", rv("str", s="d"))),
                    field("c", U8, skip=True, mapfn=True), field("d", BOOL)], error="RecErr"),
    # conversion + map + default on one field (added after seeded change C11-j: `map` fused into the `from` arm is skipped when the
    # value comes from the default): map runs once per field of a succeeding container whatever the source of the value
    struct("FFromMapDef", [field("a", U8, frm={"kind": "from", "ty": U8, "ref": False}, mapfn=True, default=("expr", "7", num_rv(7))),
                           field("b", STR, frm={"kind": "try", "ty": STR, "ref": True}, mapfn=True, default=("expr", "String::from(\"dm\")", rv("str", s="dm"))),
                           field("c", U8, frm={"kind": "from", "ty": U8, "ref": True}, mapfn=True), field("d", BOOL)], error="RecErr"),
    struct("FValidate", [field("a", U8), field("b", U8, default="trait")], error="RecErr", validate=True),
    struct("FMissing", [field("my_a", U8, missing_fn=True), field("b", BOOL, missing_fn=True, rename="bee"), field("c", U8)], error="RecErr", rename_all="camelCase"),
    # default AND missing_field_error on one field (added after seeded change C08-j: the custom missing function shadowed the default):
    # an absent key with a default is not missing, whatever else the field carries
    struct("FMissDef", [field("a", U8, missing_fn=True, default=("expr", "9", num_rv(9))), field("b", BOOL, missing_fn=True),
                        field("c", U8, missing_fn=True, default="trait"), field("d", STR, default=("expr", "String::from(\"q\")", rv("str", s="q")))], error="RecErr"),
    # remaining pairs / triples of per-field user-function attributes on one field (rename + from + map, try_from + custom missing,
    # map + custom missing, from(&) + map + custom missing, try_from(&) + map + trait default): the two misses of round 8 were both
    # combinations the catalogue lacked, so the combinations are now spelled out
    struct("FCombo", [field("first_one", U8, rename="f1", frm={"kind": "from", "ty": U8, "ref": False}, mapfn=True),
                      field("b", U8, frm={"kind": "try", "ty": U8, "ref": False}, missing_fn=True),
                      field("c", BOOL, mapfn=True, missing_fn=True),
                      field("d_e", STR, frm={"kind": "from", "ty": STR, "ref": True}, mapfn=True, missing_fn=True),
                      field("e", U8, frm={"kind": "try", "ty": U8, "ref": True}, mapfn=True, default="trait")], error="RecErr", rename_all="camelCase"),
    struct("FDenyFn", [field("a", U8), field("sk", U8, skip=True), field("b_c", BOOL, default="trait")], error="RecErr", deny="fn", rename_all="camelCase"),
    struct("FAll", [field("a", U8, frm={"kind": "try", "ty": U8, "ref": False}, mapfn=False), field("b", U8, mapfn=True, default=("expr", "3", num_rv(3))),
                    field("c", STR, missing_fn=True)], error="RecErr", deny="fn", validate=True),
    struct("CFrom", [], error="RecErr", cfrom={"kind": "from", "ty": ("vec", U8), "ref": False}),
    struct("CFromV", [], error="RecErr", cfrom={"kind": "from", "ty": U8, "ref": True}, validate=True),
    struct("CTry", [], error="RecErr", cfrom={"kind": "try", "ty": U8, "ref": True}, validate=True),
    enum("EValidate", [variant("A"), variant("B", [field("x", U8)])], tag="t", error="RecErr", validate=True),
    enum("EUnitValidate", [variant("A"), variant("B")], error="RecErr", validate=True),
    # generic error parameter + user functions returning FnErr: the derive adds `E: MergeWithError<FnErr>`, which the built-in error
    # types satisfy through their blanket impl for std errors
    struct("GTry", [field("a", U8, frm={"kind": "try", "ty": U8, "ref": False}), field("b", BOOL), field("c", STR, frm={"kind": "from", "ty": STR, "ref": False})],
           validate=True),
    enum("GEnum", [variant("A"), variant("B", [field("x", U8, frm={"kind": "try", "ty": U8, "ref": True})])], tag="t", validate=True),
    struct("GCTry", [], cfrom={"kind": "try", "ty": ("vec", U8), "ref": False}),
    # generic payload types: the derive adds the bound through needs_predicate (field) / where_predicate (container)
    struct("GenNeeds", [field("item", U8, param="T", needs=True), field("count", U8, default="trait")], error="RecErr"),
    struct("GenWhere", [field("first_item", ("vec", BOOL), param="T"), field("other", ("opt", U8), param="U")], rename_all="camelCase", deny="default"),
    enum("GenEnum", [variant("Unit"), variant("Holds", [field("inner", U8, param="T", needs=True)])], tag="kind", error="RecErr"),
    # fifth seeding round: conversions on renamed fields, tags that a rename rule would alter, digit / upper-case boundaries in variant
    # names, non-ASCII field identifiers under lowercase, attributes spread over several #[deserr(..)] lists, identifiers with leading /
    # trailing underscores, derived types as elements of sets and tuples
    struct("FTryRename", [field("max_hits", U8, frm={"kind": "try", "ty": U8, "ref": False}, rename="p"),
                          field("page_size", U8, frm={"kind": "try", "ty": U8, "ref": True}), field("plain_one", BOOL, default="trait")],
           error="RecErr", rename_all="camelCase"),
    enum("ETagSnake", [variant("UnitSquare"), variant("RoundThing", [field("line_width", U8)])], tag="shape_kind", rename_all="camelCase"),
    enum("ETagUpper", [variant("Aa"), variant("Bb", [field("Xy", U8)], rename_all="lowercase")], tag="Kind", rename_all="lowercase", deny="default"),
    enum("EDigitsCamel", [variant("Http2Only"), variant("V2Alpha"), variant("QuicV1"), variant("HTTPServer2")], rename_all="camelCase"),
    enum("ETagDigitsCamel", [variant("Http2Only"), variant("V2Alpha", [field("ipv6_addr", U8)], rename_all="camelCase")], tag="proto", rename_all="camelCase"),
    struct("SUnicodeLower", [field("Écart", U8), field("CÔTÉ", BOOL, default="trait")], rename_all="lowercase", deny="default"),
    enum("ESplit", [variant("Pear", [field("type_of_pear", U8), field("b", BOOL, rename="bee", default="trait", split=True)], rename="pear", rename_all="camelCase", split=True),
                    variant("Apple", [field("core_size", U8)])], tag="fruit"),
    struct("SSplit", [field("long_name", U8, rename="ln", default="trait", split=True), field("other_name", BOOL, rename="on", mapfn=True, split=True)], error="RecErr"),
    struct("SUnderscore", [field("type_", U8), field("_private", BOOL, default="trait"), field("Kind_", U8, default="trait")], deny="default"),
    struct("SUnderscoreLower", [field("type_", U8), field("_Private", BOOL, default="trait")], rename_all="lowercase", deny="default"),
    struct("SUnderscoreCamel", [field("type_", U8), field("_private_thing", BOOL, default="trait"), field("two__words", U8, default="trait")], rename_all="camelCase", deny="default"),
    struct("SDenySet", [field("a", U8), field("b", ("opt", BOOL))], deny="default", setelem=True),
    struct("FValidateSet", [field("a", U8), field("b", U8, default="trait")], error="RecErr", validate=True, setelem=True),
    # validate returning the container's own error type
    struct("FValidateOwn", [field("a", U8), field("b", BOOL, default="trait")], error="RecErr", validate="own"),
    enum("EValidateOwn", [variant("A"), variant("B", [field("x", U8)])], tag="t", error="RecErr", validate="own"),
    struct("FNest", [field("inner", ("ref", "FTry")), field("list", ("vec", ("ref", "FValidate"))), field("cf", ("ref", "CTry"))], error="RecErr"),
]

# entries: root type expressions
ENTRIES = [
    U8, I8, BOOL, STR, CHAR, UNIT, F64, NZU8, U64, I64,
    ("opt", U8), ("box", U8), ("opt", ("opt", U8)),
    ("vec", U8), ("vec", ("vec", BOOL)), ("vec", ("opt", I8)),
    ("hset", STR), ("bset", U8),
    ("arr", U8, 0), ("arr", U8, 2), ("arr", U8, 3), ("arr", ("arr", BOOL, 2), 2),
    ("tup", [U8, BOOL]), ("tup", [U8, STR, BOOL]), ("tup", [("vec", U8), ("tup", [BOOL, I8])]),
    ("hmap", "String", U8), ("bmap", "u8", U8), ("bmap", "i32", ("vec", U8)), ("hmap", "bool", U8), ("bmap", "char", BOOL),
    ("cs", "String"), ("cs", "u8"), ("opt", ("cs", "u8")),
    ("jvalue",), ("vec", ("jvalue",)),
    ("opt", ("vec", U8)), ("box", ("vec", ("box", U8))),
    ("phantom",),
    ("ref", "SPlain"), ("ref", "SThree"), ("ref", "SCamel"), ("ref", "SLower"), ("ref", "SRename"), ("ref", "SRenameCamel"),
    ("ref", "SDeny"), ("ref", "SDigits"), ("ref", "SDigitsLower"), ("ref", "EUnitUnicode"), ("ref", "ETagUnicode"), ("ref", "SBig"), ("ref", "SRenameMore"), ("ref", "SDefault"), ("ref", "SSkipMid"), ("ref", "SSkipFirst"), ("ref", "SSkipLast"), ("ref", "SSkipDefault"),
    ("ref", "SMix"), ("ref", "SEmpty"), ("ref", "SEmptyLoose"), ("ref", "SRaw"), ("ref", "SNested"), ("ref", "SOpt"),
    ("ref", "EUnit"), ("ref", "EUnitLower"), ("ref", "EUnitCamel"), ("ref", "ETag"), ("ref", "ETagCamel"), ("ref", "ETagDeny"),
    ("ref", "ETagCollide"), ("ref", "ETagRaw"), ("ref", "EOne"), ("ref", "SWithEnums"),
    ("vec", ("ref", "ETag")), ("hmap", "String", ("ref", "SPlain")), ("opt", ("ref", "EUnit")), ("tup", [("ref", "SPlain"), ("ref", "EUnit")]),
    ("vec", ("ref", "SDeny")),
    # more scalars and deeper nestings of the std impls
    U16, U32, U128, USIZE, I16, I32, I128, ISIZE, F32, NZI8, NZU16, NZU64, NZI64, NZI128,
    ("hmap", "String", ("vec", ("opt", U8))), ("vec", ("tup", [STR, ("opt", BOOL)])), ("arr", ("ref", "SPlain"), 2), ("bset", ("tup", [U8, U8])),
    ("opt", ("hmap", "u8", ("arr", BOOL, 1))), ("tup", [("opt", U8), ("vec", ("vec", U8)), ("bmap", "String", I8)]), ("box", ("opt", ("box", STR))),
    ("vec", ("ref", "EUnit")), ("hmap", "String", ("ref", "ETagCamel")), ("bmap", "i32", ("ref", "SDefault")), ("opt", ("ref", "SMix")),
    ("vec", ("cs", "String")), ("hset", ("opt", U8)),
    ("ref", "FFrom"), ("ref", "FTry"), ("ref", "FTryF"), ("ref", "FMap"), ("ref", "FFromMapDef"), ("ref", "FMissDef"), ("ref", "FCombo"), ("ref", "FValidate"), ("ref", "FMissing"), ("ref", "FDenyFn"), ("ref", "FAll"),
    ("ref", "GTry"), ("ref", "GEnum"), ("ref", "GCTry"), ("vec", ("ref", "GTry")),
    # probe-free twins (no enter / exit events: judged at the end of the call against the declarative semantics)
    ("bare", "SPlain"), ("bare", "SThree"), ("bare", "SCamel"), ("bare", "SLower"), ("bare", "SRename"), ("bare", "SDeny"), ("bare", "SDefault"), ("bare", "SOpt"),
    ("bare", "SSkipMid"), ("bare", "SSkipDefault"), ("bare", "SNested"), ("bare", "SWithEnums"), ("bare", "ETag"), ("bare", "ETagCamel"), ("bare", "ETagDeny"),
    ("bare", "EUnit"), ("bare", "SMix"), ("bare", "SDigits"), ("bare", "SUnderscore"), ("bare", "ESplit"),
    ("ref", "FTryRename"), ("ref", "ETagSnake"), ("ref", "ETagUpper"), ("ref", "EDigitsCamel"), ("ref", "ETagDigitsCamel"), ("ref", "SUnicodeLower"),
    ("ref", "ESplit"), ("ref", "SSplit"), ("ref", "SUnderscore"), ("ref", "SUnderscoreLower"), ("ref", "SUnderscoreCamel"),
    ("tup", [("ref", "SDeny"), ("ref", "SDeny")]), ("bset", ("ref", "SDenySet")), ("hset", ("ref", "SDenySet")), ("bset", ("ref", "FValidateSet")),
    ("vec", ("ref", "FTryRename")),
    ("ref", "FValidateOwn"), ("ref", "EValidateOwn"), ("ref", "GenNeeds"), ("ref", "GenWhere"), ("ref", "GenEnum"), ("vec", ("ref", "GenNeeds")),
    ("ref", "CFrom"), ("ref", "CFromV"), ("ref", "CTry"), ("ref", "EValidate"), ("ref", "EUnitValidate"), ("ref", "FNest"), ("vec", ("ref", "FTry")),
]
