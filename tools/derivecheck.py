"""C16: the derive front end.

  1. TLC explores DDerive (every item sequence up to MaxItems at container / variant / field level, every shape) and checks
     NoOverride / NoDrop / PoisonRejected / OnlyPoisonRejected; it prints one REPLAY record per decided derive input.
  2. Every input (thorough: all inputs of <= 2 items plus a seeded sample of the 3-item ones) is rendered to a Rust item with
     well-typed helper functions; inputs the specification rejects go to crate `reject`, the others to crate `accept`; both are
     compiled against the working tree with `cargo check --message-format=json` and the diagnostics attributed to items by line.
  3. TLC validates one line per input: rejected iff the property lists a rejection cause, by a diagnostic the derive issued
     (no error code), never a panic; accepted inputs compile.
"""
import json, os, random, shutil, subprocess, time
import vlib, helpers
from vlib import log

PRELUDE = r'''#![allow(dead_code, unused, non_camel_case_types)]
use deserr::{DeserializeError, Deserr, ErrorKind, IntoValue, MergeWithError, ValuePointerRef};
use std::ops::ControlFlow;
pub struct DErr;
pub struct DErr2;
pub struct FErr;
impl DeserializeError for DErr {
    fn error<V: IntoValue>(_s: Option<Self>, _e: ErrorKind<V>, _l: ValuePointerRef) -> ControlFlow<Self, Self> { ControlFlow::Break(DErr) }
}
impl MergeWithError<DErr> for DErr { fn merge(_s: Option<Self>, o: DErr, _l: ValuePointerRef) -> ControlFlow<Self, Self> { ControlFlow::Break(o) } }
impl MergeWithError<DErr2> for DErr { fn merge(_s: Option<Self>, _o: DErr2, _l: ValuePointerRef) -> ControlFlow<Self, Self> { ControlFlow::Break(DErr) } }
impl MergeWithError<FErr> for DErr { fn merge(_s: Option<Self>, _o: FErr, _l: ValuePointerRef) -> ControlFlow<Self, Self> { ControlFlow::Break(DErr) } }
impl DeserializeError for DErr2 {
    fn error<V: IntoValue>(_s: Option<Self>, _e: ErrorKind<V>, _l: ValuePointerRef) -> ControlFlow<Self, Self> { ControlFlow::Break(DErr2) }
}
impl MergeWithError<DErr2> for DErr2 { fn merge(_s: Option<Self>, o: DErr2, _l: ValuePointerRef) -> ControlFlow<Self, Self> { ControlFlow::Break(o) } }
impl MergeWithError<DErr> for DErr2 { fn merge(_s: Option<Self>, _o: DErr, _l: ValuePointerRef) -> ControlFlow<Self, Self> { ControlFlow::Break(DErr2) } }
impl MergeWithError<FErr> for DErr2 { fn merge(_s: Option<Self>, _o: FErr, _l: ValuePointerRef) -> ControlFlow<Self, Self> { ControlFlow::Break(DErr2) } }
fn map_u8(x: u8) -> u8 { x }
fn from_s(_s: String) -> u8 { 0 }
fn try_s(_s: String) -> Result<u8, FErr> { Ok(0) }
fn miss(_f: &str, _l: ValuePointerRef) -> FErr { FErr }
fn deny_fn(_k: &str, _a: &[&str], _l: ValuePointerRef) -> FErr { FErr }
'''


def item_text(level, name, form, nth, i):
    """text of one attribute item; nth = 0 for the first occurrence of its slot, 1 for the second ..."""
    T = "T%d" % i
    if name == "unknown":
        return "frobnicate"
    if name == "rename_all":
        if form == "badvalue": return "rename_all = snake_case"
        if form == "malformed": return "rename_all camelCase"
        return "rename_all = %s" % ["camelCase", "lowercase", "camelCase"][nth % 3]
    if name == "tag":
        return 'tag "t"' if form == "malformed" else 'tag = "%s"' % ["t", "u", "v"][nth % 3]
    if name == "rename":
        return 'rename "aa"' if form == "malformed" else 'rename = "%s"' % ["aa", "bb", "cc"][nth % 3]
    if name == "error":
        ety = (["DErr", "DErr2", "DErr"] if level == "container" else ["DErr2", "DErr", "DErr2"])[nth % 3]
        return ("error %s" % ety) if form == "malformed" else ("error = %s" % ety)
    if name == "deny_flag": return "deny_unknown_fields"
    if name == "deny_fn": return "deny_unknown_fields = deny_fn extra" if form == "malformed" else "deny_unknown_fields = deny_fn"
    if name == "from":
        if level == "container":
            return ("from(String) cfrom_%d" % i) if form == "malformed" else ("from(String) = cfrom_%d" % i)
        return "from(String) from_s" if form == "malformed" else "from(String) = from_s"
    if name == "try_from":
        if level == "container":
            return ("try_from(String) = ctry_%d" % i) if form == "malformed" else ("try_from(String) = ctry_%d -> FErr" % i)
        return "try_from(String) = try_s" if form == "malformed" else "try_from(String) = try_s -> FErr"
    if name == "validate":
        return ("validate = val_%d" % i) if form == "malformed" else ("validate = val_%d -> FErr" % i)
    if name == "where_predicate": return "where_predicate u8" if form == "malformed" else "where_predicate = u8: Sized"
    if name == "default_flag": return "default"
    if name == "default_expr": return "default = 5 5" if form == "malformed" else "default = %d" % (5 + nth)
    if name == "skip": return "skip"
    if name == "map": return "map map_u8" if form == "malformed" else "map = map_u8"
    if name == "missing_field_error": return "missing_field_error miss" if form == "malformed" else "missing_field_error = miss"
    if name == "needs_predicate": return "needs_predicate"
    raise ValueError(name)


def slot_of(name):
    return {"deny_flag": "deny", "deny_fn": "deny", "default_flag": "default", "default_expr": "default"}.get(name, name)


def attr_lines(level, items, i, indent):
    groups, seen = [], {}
    for it in items:
        if it["name"] == "attr_shape":
            # the whole attribute written without an argument list; always an attribute of its own
            groups.append((("shape", len(groups)), ["#SHAPE:" + it["form"]]))
            continue
        s = slot_of(it["name"])
        nth = seen.get(s, 0)
        seen[s] = nth + 1
        txt = item_text(level, it["name"], it["form"], nth, i)
        if groups and groups[-1][0] == it["grp"]:
            groups[-1][1].append(txt)
        else:
            groups.append((it["grp"], [txt]))
    out = []
    for g in groups:
        if g[1] and g[1][0].startswith("#SHAPE:"):
            out.append(indent + ("#[deserr]" if g[1][0].endswith("bare") else '#[deserr = "x"]'))
        else:
            out.append("%s#[deserr(%s)]" % (indent, ", ".join(g[1])))
    return out


def render(rec, i):
    """Rust source lines of derive input number i"""
    shape, level, items = rec["shape"], rec["level"], rec["items"]
    T = "T%d" % i
    names = [it["name"] for it in items]
    out = []
    is_enum = shape.startswith("enum")
    # helper functions of this item
    ctor = ("%s::W" % T) if is_enum and shape != "enum_tuple_tag" else ("%s { a: 0, b: String::new() }" % T)
    if shape == "struct_tuple": ctor = "%s(0)" % T
    if shape == "struct_unit": ctor = T
    if shape == "enum_unit": ctor = "%s::A" % T
    if shape == "enum_tuple_tag": ctor = "%s::V(0)" % T
    if shape != "union":
        out.append("fn cfrom_%d(_s: String) -> %s { %s }" % (i, T, ctor))
        out.append("fn ctry_%d(_s: String) -> Result<%s, FErr> { Ok(%s) }" % (i, T, ctor))
        out.append("fn val_%d(t: %s, _l: ValuePointerRef) -> Result<%s, FErr> { Ok(t) }" % (i, T, T))
    out.append("#[derive(Deserr)]")
    cont_items = items if level == "container" else []
    base = []
    if "error" not in [it["name"] for it in cont_items]:
        base.append("error = DErr")
    if shape in ("enum_named_tag", "enum_tuple_tag") and "tag" not in [it["name"] for it in cont_items]:
        out.append('#[deserr(tag = "t")]')
    if base:
        out.append("#[deserr(%s)]" % ", ".join(base))
    out += attr_lines("container", cont_items, i, "")
    fa = attr_lines("field", items, i, "    ") if level == "field" else []
    va = attr_lines("variant", items, i, "    ") if level == "variant" else []
    if shape == "struct_named":
        out += ["struct %s {" % T] + fa + ["    a: u8,", "    b: String,", "}"]
    elif shape == "struct_tuple":
        out.append("struct %s(u8);" % T)
    elif shape == "struct_unit":
        out.append("struct %s;" % T)
    elif shape == "union":
        out.append("union %s { a: u8 }" % T)
    elif shape == "enum_unit":
        out.append("enum %s { A, B }" % T)
    elif shape in ("enum_named_tag", "enum_named_notag"):
        out += ["enum %s {" % T] + va + ["    V { my_x: u8 },", "    W,", "}"]
    elif shape == "enum_tuple_tag":
        out.append("enum %s { V(u8), W }" % T)
    return out


def write_crate(path, name, recs, repo):
    os.makedirs(os.path.join(path, "src"), exist_ok=True)
    with open(os.path.join(path, "Cargo.toml"), "w") as f:
        f.write('[package]\nname = "%s"\nversion = "0.0.0"\nedition = "2021"\npublish = false\n\n[dependencies]\ndeserr = { path = "%s" }\n\n[workspace]\n' % (name, repo))
    os.makedirs(os.path.join(path, ".cargo"), exist_ok=True)
    with open(os.path.join(path, ".cargo", "config.toml"), "w") as f:
        f.write('[net]\noffline = true\n[build]\ntarget-dir = "../target"\n')
    shutil.copyfile(os.path.join(repo, "Cargo.lock"), os.path.join(path, "Cargo.lock"))
    lines = PRELUDE.split("\n")
    ranges = []
    for i, rec in recs:
        start = len(lines) + 1
        lines += render(rec, i)
        ranges.append((i, start, len(lines)))
        lines.append("")
    with open(os.path.join(path, "src", "lib.rs"), "w") as f:
        f.write("\n".join(lines) + "\n")
    return ranges


def cargo_check(path):
    env = dict(os.environ, CARGO_NET_OFFLINE="true")
    p = subprocess.run(["cargo", "check", "--offline", "--message-format=json"], cwd=path, env=env, stdout=subprocess.PIPE, stderr=subprocess.PIPE, text=True, timeout=3000)
    diags = []
    for line in p.stdout.splitlines():
        try:
            m = json.loads(line)
        except ValueError:
            continue
        if m.get("reason") != "compiler-message":
            continue
        msg = m["message"]
        if msg.get("level") != "error":
            continue
        lines = [s["line_start"] for s in msg.get("spans", []) if s.get("file_name", "").endswith("lib.rs")]
        # follow macro expansions back to the file
        for s in msg.get("spans", []):
            e = s.get("expansion")
            while e:
                sp = e.get("span", {})
                if sp.get("file_name", "").endswith("lib.rs"):
                    lines.append(sp["line_start"])
                e = sp.get("expansion")
        if not lines:
            continue
        diags.append({"lines": lines, "code": (msg.get("code") or {}).get("code"), "message": msg.get("message", "")})
    if p.returncode != 0 and not diags and "error" in p.stderr:
        # a build failure that is not attributable to items (e.g. deserr itself does not compile)
        raise vlib.ToolError("cargo check failed without item diagnostics: " + p.stderr[-1500:])
    return diags


def attribute(diags, ranges):
    per = {i: {"derive_errors": [], "rustc_errors": []} for i, _, _ in ranges}
    for d in diags:
        for i, a, b in ranges:
            if any(a <= ln <= b for ln in d["lines"]):
                if d["code"] is None:
                    per[i]["derive_errors"].append(d["message"])
                else:
                    per[i]["rustc_errors"].append(d["code"])
                break
    return per


def spec_poisoned(rec):
    return rec["verdict"] == "reject"


def run(pid, tier):
    t0 = time.time()
    vlib.ensure_dirs()
    cfg = "MC_derive.cfg" if tier == "quick" else "MC_derive_thorough.cfg"
    r = vlib.run_tlc("MC_derive", cfg, "C16-mc", workers=8, timeout=1800, xmx="8g")
    if not r.ok:
        log(r.error_text[:1500])
        path = vlib.save_replay(pid, "mc", {"kind": "tlc-counterexample", "module": "MC_derive", "cfg": cfg, "output": r.error_text})
        vlib.write_evidence(pid, tier, "model_checking", {"evaluations": 1, "distinct_nontrivial": 0, "explanation": "TLC error", "samples": [r.error_text[:300]]}, [], time.time() - t0, 1)
        return vlib.finish(pid, [(path, "TLC reports an error on DDerive")])
    recs = vlib.tagged_json(r, "REPLAY")
    log("[mc] MC_derive/%s: %d distinct states, %d decided derive inputs, %.1fs" % (cfg, r.distinct, len(recs), r.wall))
    # dedupe, order deterministically
    uniq = {}
    for x in recs:
        uniq[json.dumps([x["shape"], x["level"], x["items"]], sort_keys=True)] = x
    recs = [uniq[k] for k in sorted(uniq)]
    if tier == "thorough":
        small = [x for x in recs if len(x["items"]) <= 2]
        big = [x for x in recs if len(x["items"]) > 2]
        random.Random(vlib.seed()).shuffle(big)
        recs = small + big[:5000]
    return compile_and_validate(pid, tier, recs, r, t0)


def compile_and_validate(pid, tier, recs, mc, t0):
    dc = os.path.join(vlib.WORK, "dc")
    shutil.rmtree(os.path.join(dc, "accept"), ignore_errors=True)
    shutil.rmtree(os.path.join(dc, "reject"), ignore_errors=True)
    numbered = list(enumerate(recs))
    acc = [(i, x) for i, x in numbered if not spec_poisoned(x)]
    rej = [(i, x) for i, x in numbered if spec_poisoned(x)]
    ra = write_crate(os.path.join(dc, "accept"), "dc_accept", acc, vlib.REPO)
    rr = write_crate(os.path.join(dc, "reject"), "dc_reject", rej, vlib.REPO)
    da = cargo_check(os.path.join(dc, "accept"))
    dr = cargo_check(os.path.join(dc, "reject"))
    log("[cargo] accept crate: %d items, %d error diagnostics; reject crate: %d items, %d error diagnostics (%.1fs so far)" %
        (len(acc), len(da), len(rej), len(dr), time.time() - t0))
    pa, pr = attribute(da, ra), attribute(dr, rr)
    tp = os.path.join(vlib.WORK, "traces", "%s-derive.ndjson" % pid)
    with open(tp, "w") as f:
        for i, x in numbered:
            obs = pa[i] if i in pa else pr[i]
            obs["crate"] = "accept" if i in pa else "reject"
            f.write(json.dumps({"e": "reset", "inp": {"shape": x["shape"], "level": x["level"], "items": x["items"]},
                                "spec": {"verdict": x["verdict"], "cause": x["cause"]}, "obs": obs, "src": render(x, i)}, separators=(",", ":")) + "\n")
    n, results, bad, st = helpers.validate_sharded(pid, "Trace_derive", "Trace_derive.cfg", tp, 8)
    violations = []
    for b in bad:
        ev = b["events"][0]
        path = vlib.save_replay(pid, "derive", {"property": pid, "input": ev["inp"], "spec": ev["spec"], "observed": ev["obs"], "source": ev["src"]})
        violations.append((path, "derive input %s / %s / %s: spec %s, observed derive errors %s rustc errors %s" %
                           (ev["inp"]["shape"], ev["inp"]["level"], [it["name"] + ":" + it["form"] for it in ev["inp"]["items"]],
                            ev["spec"]["verdict"], ev["obs"]["derive_errors"][:2], ev["obs"]["rustc_errors"][:3])))
    nrej = sum(x.get("rejected", 0) for x in results)
    cov = {"states": mc.distinct + st, "transitions": mc.generated + n, "traces_validated_against_impl": n,
           "samples": [{"input": recs[k], "source": render(recs[k], k)} for k in (0, len(recs) // 2, len(recs) - 1)],
           "evaluations": n, "distinct_nontrivial": len([x for x in recs if len(x["items"]) >= 1 or x["verdict"] == "reject"]),
           "rule": "one line per derive input: TLC enumerates every attribute item sequence of <= 2 (quick) / <= 3 (thorough, sampled to 5000 + all <= 2) "
                   "items at container, variant and field level (each in the same or a new #[deserr(..)] group, valid / invalid value / malformed), and every "
                   "shape; each is rendered to a Rust item and compiled against the working tree; non-trivial = inputs with at least one item or a rejected shape",
           "exhaustive": tier == "quick", "derive_inputs": len(recs), "spec_rejects": len([x for x in recs if x["verdict"] == "reject"]),
           "observed_rejected_by_derive": nrej, "mc_distinct_states": mc.distinct,
           "checker_cmd": "tlc MC_derive + cargo check --message-format=json on two generated crates + tlc Trace_derive"}
    vlib.write_evidence(pid, tier, "model_checking", cov,
                        ["TLC, cargo/rustc are trusted; a diagnostic without an error code is one issued by the derive (compile_error!)",
                         "the helper functions of the generated crates are well typed, so an accepted input compiles",
                         "one representative shape per level: named struct / tagged enum with one struct-like and one unit variant"],
                        time.time() - t0, len(violations))
    return vlib.finish(pid, violations)


def replay(pid, path):
    obj = json.load(open(path))
    if obj.get("kind") == "tlc-counterexample":
        print(obj["output"])
        return 1
    rec = dict(obj["input"], verdict=obj["spec"]["verdict"], cause=obj["spec"]["cause"])
    class MC: distinct = 1; generated = 1
    return compile_and_validate(pid, "quick", [rec], MC, time.time())
