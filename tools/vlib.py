"""Shared machinery for the deserr model-based checks.

Exit codes of a check: 0 property held on everything explored (possibly with
KNOWN-FINDING lines), 1 with a `VIOLATION property=<id> replay=<path>` line,
2 tool error / timeout / vacuity (never a verdict).
"""
import json, os, re, shutil, subprocess, sys, time, hashlib

VERIF = os.path.dirname(os.path.dirname(os.path.abspath(__file__)))
SPEC = os.path.join(VERIF, "spec")
# the three overrides exist for the mutant runs (a scratch copy of /repo and of the harness, see tools/mutants.py);
# registered checks never set them
WORK = os.environ.get("VERIF_WORK", os.path.join(VERIF, "work"))
HARNESS = os.environ.get("VERIF_HARNESS_DIR", os.path.join(VERIF, "harness"))
EVID = os.environ.get("VERIF_EVID", os.path.join(VERIF, "evidence"))
REPO = os.environ.get("DESERR_REPO", "/repo")
TLA_CP = "/opt/veriftools/tla/tla2tools.jar:/opt/veriftools/tla/CommunityModules-deps.jar"
NCPU = os.cpu_count() or 4


class ToolError(Exception):
    pass


def log(*a):
    print(*a, file=sys.stderr, flush=True)


def seed():
    try:
        return int(os.environ.get("VERIF_SEED", "1"))
    except ValueError:
        return 1


def ensure_dirs():
    for d in (WORK, EVID, os.path.join(WORK, "tlc"), os.path.join(WORK, "traces"), os.path.join(WORK, "replay")):
        os.makedirs(d, exist_ok=True)


# --------------------------------------------------------------------------- cargo
def build_harness(package="dh", features=None, timeout=1500, env_extra=None):
    """(Re)build the harness against /repo's current working tree. Returns the binary path."""
    ensure_dirs()
    lock_src = os.path.join(REPO, "Cargo.lock")
    lock_dst = os.path.join(HARNESS, "Cargo.lock")
    if not os.path.exists(lock_dst):
        shutil.copyfile(lock_src, lock_dst)
    cmd = ["cargo", "build", "--release", "--offline", "-p", package]
    if features:
        cmd += ["--features", features]
    t0 = time.time()
    env = dict(os.environ)
    env["CARGO_NET_OFFLINE"] = "true"
    env.pop("DH_GEN_CAT", None)
    if env_extra:
        env.update(env_extra)
    p = subprocess.run(cmd, cwd=HARNESS, env=env, stdout=subprocess.PIPE, stderr=subprocess.STDOUT, text=True, timeout=timeout)
    if p.returncode != 0 and "Cargo.lock" in p.stdout and "needs to be updated" in p.stdout:
        shutil.copyfile(lock_src, lock_dst)
        p = subprocess.run(cmd, cwd=HARNESS, env=env, stdout=subprocess.PIPE, stderr=subprocess.STDOUT, text=True, timeout=timeout)
    if p.returncode != 0:
        # A tree that no longer compiles against the harness is not a verdict.
        log(p.stdout[-6000:])
        raise ToolError("harness build failed (cargo exit %d)" % p.returncode)
    log("[build] %s built in %.1fs" % (package, time.time() - t0))
    return os.path.join(WORK, "target", "release", package)


def run_harness(binary, args, stdin_path=None, stdout_path=None, timeout=3600, env_extra=None):
    env = dict(os.environ)
    env["VERIF_SEED"] = str(seed())
    if env_extra:
        env.update(env_extra)
    fin = open(stdin_path, "rb") if stdin_path else subprocess.DEVNULL
    fout = open(stdout_path, "wb") if stdout_path else subprocess.PIPE
    try:
        p = subprocess.run([binary] + args, stdin=fin, stdout=fout, stderr=subprocess.PIPE, env=env, timeout=timeout)
    finally:
        if stdin_path:
            fin.close()
        if stdout_path:
            fout.close()
    if p.returncode != 0:
        log(p.stderr.decode(errors="replace")[-4000:])
        raise ToolError("harness %s exited %d" % (" ".join(args), p.returncode))
    return p


# --------------------------------------------------------------------------- TLC
_STATES = re.compile(r"(\d+) states generated, (\d+) distinct states found, (\d+) states left on queue")
_DEPTH = re.compile(r"The depth of the complete state graph search is (\d+)")


class TlcResult:
    def __init__(self):
        self.rc = None
        self.out = ""
        self.generated = 0
        self.distinct = 0
        self.depth = 0
        self.wall = 0.0
        self.prints = []  # parsed <<"TAG", ...>> lines (raw text)
        self.ok = False
        self.error_text = ""
        self.coverage = {}


def _unescape_tla_string(s):
    # TLC prints strings with \" and \\ escapes
    out = []
    i = 0
    while i < len(s):
        c = s[i]
        if c == "\\" and i + 1 < len(s):
            n = s[i + 1]
            if n == "n":
                out.append("\n")
            elif n == "t":
                out.append("\t")
            else:
                out.append(n)
            i += 2
        else:
            out.append(c)
            i += 1
    return "".join(out)


def tagged_json(res, tag):
    """All PrintT(<<tag, ToJson(x)>>) payloads of a TLC run, parsed."""
    pre = '<<"%s", "' % tag
    outs = []
    for line in res.out.splitlines():
        if line.startswith(pre) and line.endswith('">>'):
            body = line[len(pre):-3]
            outs.append(json.loads(_unescape_tla_string(body)))
    return outs


def run_tlc(module, cfg, name, workers=1, env_extra=None, timeout=1800, simulate=None, depth=None,
            xmx="4g", coverage=False, deque=False, stack="1g", extra=None):
    """Run TLC on spec/<module>.tla with spec/<cfg>. Returns TlcResult; raises ToolError on timeouts."""
    ensure_dirs()
    meta = os.path.join(WORK, "tlc", name)
    shutil.rmtree(meta, ignore_errors=True)
    os.makedirs(meta, exist_ok=True)
    jopts = ["-XX:+UseParallelGC", "-Xmx" + xmx, "-Xss" + stack]
    if deque:
        jopts.append("-Dtlc2.tool.queue.IStateQueue=StateDeque")
    cmd = ["java"] + jopts + ["-cp", TLA_CP, "tlc2.TLC", "-workers", str(workers), "-metadir", meta,
                              "-cleanup", "-noGenerateSpecTE", "-config", cfg]
    if coverage:
        cmd += ["-coverage", "1"]
    if simulate:
        cmd += ["-simulate", simulate]
        if depth:
            cmd += ["-depth", str(depth)]
    if extra:
        cmd += extra
    cmd.append(module + ".tla")
    env = dict(os.environ)
    env.pop("JAVA_TOOL_OPTIONS", None)
    if env_extra:
        env.update({k: str(v) for k, v in env_extra.items()})
    t0 = time.time()
    r = TlcResult()
    try:
        p = subprocess.run(cmd, cwd=SPEC, env=env, stdout=subprocess.PIPE, stderr=subprocess.STDOUT, text=True, timeout=timeout)
    except subprocess.TimeoutExpired:
        shutil.rmtree(meta, ignore_errors=True)
        raise ToolError("TLC %s/%s timed out after %ds" % (module, cfg, timeout))
    r.wall = time.time() - t0
    r.rc = p.returncode
    r.out = p.stdout
    for m in _STATES.finditer(p.stdout):
        r.generated, r.distinct = int(m.group(1)), int(m.group(2))
    m = _DEPTH.search(p.stdout)
    if m:
        r.depth = int(m.group(1))
    r.ok = (p.returncode == 0 and ("Model checking completed. No error has been found." in p.stdout or
                                   (simulate is not None and "Error:" not in p.stdout)))
    if not r.ok:
        idx = p.stdout.find("Error:")
        r.error_text = p.stdout[idx: idx + 3000] if idx >= 0 else p.stdout[-3000:]
    shutil.rmtree(meta, ignore_errors=True)
    return r


def tlc_must_pass(r, what):
    if not r.ok:
        log(r.error_text[:1500])
        raise ToolError("TLC run failed: %s" % what)


# --------------------------------------------------------------------------- trace validation
def validate_trace(trace_module, cfg, trace_path, name, timeout=1800, env_extra=None, xmx="4g"):
    """Validate one ndjson trace with a monitor-style trace spec.

    The trace specs consume every line, accumulate violations in a state variable and print
    <<"RESULT", ToJson(...)>> at the final state; TraceAccepted (POSTCONDITION) checks that the
    whole file was consumed.  Returns (result-dict, TlcResult)."""
    env = {"TRACE": trace_path}
    if env_extra:
        env.update(env_extra)
    r = run_tlc(trace_module, cfg, name, workers=1, env_extra=env, timeout=timeout, deque=True, xmx=xmx)
    if not r.ok and "Error:" not in (r.out or "") and "Error:" not in (r.error_text or ""):
        # the JVM went away without TLC reporting anything (killed under memory pressure next to many other JVMs): once more, alone
        log("trace validation of %s ended without a TLC verdict; retrying once" % os.path.basename(trace_path))
        time.sleep(5)
        r = run_tlc(trace_module, cfg, name + "-retry", workers=1, env_extra=env, timeout=timeout, deque=True, xmx=xmx)
    if not r.ok:
        log(r.error_text[:1500])
        raise ToolError("trace validation run failed (%s on %s)" % (trace_module, trace_path))
    res = tagged_json(r, "RESULT")
    if len(res) < 1:
        log(r.out[-3000:])
        raise ToolError("trace validation printed no RESULT (%s)" % trace_path)
    return res[-1], r


def shard_lines(lines, nshards):
    """Split trace lines into shards at `reset` boundaries (lines are dict events or raw strings with "e":"reset")."""
    runs = []
    cur = []
    for ln in lines:
        if '"e":"reset"' in ln and cur:
            runs.append(cur)
            cur = []
        cur.append(ln)
    if cur:
        runs.append(cur)
    shards = [[] for _ in range(max(1, nshards))]
    sizes = [0] * len(shards)
    for run in runs:
        k = sizes.index(min(sizes))
        shards[k].extend(run)
        sizes[k] += len(run)
    return [s for s in shards if s]


def parallel(fn_args_list, nproc):
    """Run callables in a thread pool (the work is in subprocesses)."""
    from concurrent.futures import ThreadPoolExecutor
    with ThreadPoolExecutor(max_workers=nproc) as ex:
        futs = [ex.submit(f, *a) for (f, a) in fn_args_list]
        return [f.result() for f in futs]


# --------------------------------------------------------------------------- evidence / findings
def load_known_findings():
    p = os.path.join(VERIF, "known_findings.json")
    if not os.path.exists(p):
        return []
    return json.load(open(p))["findings"]


def write_evidence(pid, tier, level, coverage, assumptions, wall, violations):
    ensure_dirs()
    ev = {
        "property_id": pid,
        "tier": tier,
        "seed": seed(),
        "level": level,
        "coverage": coverage,
        "assumptions": assumptions,
        "wall_s": round(wall, 2),
        "violations": violations,
    }
    tmp = os.path.join(EVID, pid + ".json.tmp")
    with open(tmp, "w") as f:
        json.dump(ev, f, indent=1, sort_keys=True)
        f.write("\n")
    os.replace(tmp, os.path.join(EVID, pid + ".json"))


def save_replay(pid, tag, obj):
    ensure_dirs()
    h = hashlib.sha1(json.dumps(obj, sort_keys=True).encode()).hexdigest()[:10]
    p = os.path.join(WORK, "replay", "%s-%s-%s.json" % (pid, tag, h))
    with open(p, "w") as f:
        json.dump(obj, f, indent=1, sort_keys=True)
        f.write("\n")
    return p


def finish(pid, violations, known_hits=()):
    """violations: list of (replay_path, description). known_hits: list of descriptions."""
    for d in known_hits:
        print("KNOWN-FINDING: property=%s %s" % (pid, d))
    if violations:
        for path, desc in violations[:20]:
            print("VIOLATION property=%s replay=%s" % (pid, path))
            log("  " + desc)
        sys.stdout.flush()
        return 1
    print("OK property=%s" % pid)
    return 0
