#!/usr/bin/env python3
"""Regenerates MANIFEST.json from the table below (single source for the interface file)."""
import json, os
V = os.path.dirname(os.path.dirname(os.path.abspath(__file__)))

CLAIMED = {
 "C16": {
  "text": "The derive front end is a TLA+ state machine (DDerive: items consumed one by one into single-valued slots, then the final attribute-combination and shape checks). TLC explores every item sequence of <= 2 (quick) / <= 3 (thorough) items at container, variant and field level in every grouping, valid / invalid value / malformed, and every shape, and checks NoOverride, NoDrop, PoisonRejected, OnlyPoisonRejected and that the machine equals its functional form. Every decided input (2 236 quick; thorough: those plus a seeded sample of 5 000 three-item inputs) is rendered to a Rust item and compiled against the working tree; TLC validates per input that it is rejected exactly when the property lists a cause, by a diagnostic issued by the derive and never a panic, and that accepted inputs compile.",
  "note": "One representative item per shape/level (named struct, tagged enum); helper functions are well typed. A diagnostic without error code is taken to be issued by the derive. Bounded by item-sequence length.",
  "technique": "TLA+ state machine of the attribute parser + TLC exhaustive exploration; spec->impl replay through rustc; impl->spec trace validation of compiler diagnostics",
  "design_ref": "DESIGN.md section 5 (C16)",
 },
 "C13": {
  "text": "The bridge is four TLA+ functions transcribed from src/serde_json.rs (kind chain, into_value chain, From<Value>, Deserr for Value) plus the classification rule LitHolds. TLC checks on 959 small documents over number literals at every classification boundary that kinds agree at every node and that the round trip is the identity; every document and seeded random documents are parsed by serde_json and the real kind()/into_value()/From/Deserr observations are validated line by line by TLC (per-node kind agreement and classification by literal, view = ViewOf(held), both back-conversions = held, no error).",
  "note": "serde_json is trusted as parser and as holder of numbers. Nesting of validated documents is limited to ~80 levels by the Gson nesting limit of TLC's Json module (deeper nests are exercised by the C12 check).",
  "technique": "TLA+ transcription + small-scope TLC enumeration; spec->impl replay; impl->spec trace validation",
  "design_ref": "DESIGN.md section 5 (C13)",
 },
 "C05": {
  "text": "Outcome(target, value) is a TLA+ function over digit sequences (exact bounds up to 2^128). TLC enumerates 30 targets x the 2^k boundary universe in both integer forms x every other kind (17 400 points) and checks Outcome against independently worded facts (ok iff admissible and in domain, violated bound really violated, widening, 128-bit targets accept all of u64/i64); every point is replayed through the real impls via serde_json and a second value source, every integer of [-70000,70000] is swept for every target/form/source and validated by TLC per run-length-encoded stretch, plus seeded random numbers, strings and f32 double-rounding witnesses. Structured results (value, accepted kinds, digit runs of the message) are validated line by line by TLC.",
  "note": "IEEE rounding into f32/f64 is decided by a harness-side oracle independent of `as` (exact decimal expansion + correctly rounded parse), not by TLA+. 64-bit usize assumed. Message wording is not compared: only the received number, the violated bound, 'zero'/'empty', the string and its length.",
  "technique": "TLA+ function definition checked by TLC on a boundary universe; spec->impl replay; impl->spec trace validation incl. exhaustive sweep",
  "design_ref": "DESIGN.md section 5 (C05)",
 },
 "C18": {
  "text": "The suggestion rule (byte-length budget, unrestricted Damerau-Levenshtein distance over scalar values, earliest minimal candidate) is a TLA+ function. TLC proves on every pair of strings over a 3-symbol alphabet up to length 4 (quick) / 5 (thorough) that the Lowrance-Wagner DP used by the spec equals the shortest-path distance of the four-operation edit graph (Zero/Lipschitz/Descent invariants) and checks the structural facts of the property; all enumerated (received, candidates) inputs, a wide alphabet with 2- and 4-byte symbols, and seeded random multi-candidate lists around every byte threshold are executed on the real did_you_mean and each returned string is validated verbatim by TLC.",
  "note": "Bounded: exhaustive pairs up to length 4/5 over 3 symbols; random strings up to 30 bytes, lists up to ~10 candidates. Trusted: TLC, Json module, harness s.chars() encoding.",
  "technique": "TLA+ function definition with TLC-checked inductive characterisation of the distance; exhaustive spec->impl replay; impl->spec trace validation",
  "design_ref": "DESIGN.md section 5 (C18)",
 },
 "C17": {
  "text": "TLC enumerates every list of <= 5 (quick) / 6 (thorough) value kinds with repetitions and checks that the TLA+ transcription of sort+dedup+description_rec equals the declarative set-based phrase DescSpec and is invariant under adjacent swaps; every enumerated list, all 256 subsets in random permutations with repetitions and random longer lists are executed on the real value_kinds_description_json and each (input, output) line is validated by TLC against DescSpec.",
  "note": "Bounded: lists up to length 5/6 exhaustively, random lists up to 12/14. Trusted: TLC string concatenation, the Json module.",
  "technique": "TLA+ definition of the phrase (set-based spec + transcription) checked by TLC; exhaustive spec->impl replay and impl->spec trace validation",
  "design_ref": "DESIGN.md section 5 (C17)",
 },
 "C19": {
  "text": "TLC explores the DPointer state machine (push_key/push_index over the linked-list representation of src/value.rs) exhaustively for all paths of <= 6 (quick) / 8 (thorough) steps and checks the refinement invariant to the abstract path; every explored path is replayed through the real ValuePointerRef and the four observations after every push are validated against the same TLA+ definitions by TLC trace validation, plus seeded random long paths.",
  "note": "Bounded: paths of <= 6/8 steps exhaustively, random paths up to 40/200 steps. Trusted: TLC, the Json module, derived Debug of the owned pointer components.",
  "technique": "TLA+ state machine + TLC exhaustive model checking; spec->impl replay and impl->spec trace validation",
  "design_ref": "DESIGN.md section 5 (C19)",
 },
}

PENDING_REASON = "check under construction in this round: the TLA+ module and harness driver for it are not committed yet (see DESIGN.md section 5 for the planned decision)"


def main():
    props = [json.loads(l) for l in open(os.path.join(V, "properties.jsonl"))]
    checks, na = [], []
    for p in props:
        pid = p["id"]
        if pid in CLAIMED:
            c = CLAIMED[pid]
            checks.append({
                "property_id": pid,
                "quick_cmd": "python3 tools/check.py %s --tier quick" % pid,
                "thorough_cmd": "python3 tools/check.py %s --tier thorough" % pid,
                "evidence_file": "evidence/%s.json" % pid,
                "replay_cmd_template": "python3 tools/check.py %s --replay {path}" % pid,
                "engine": "tlc+dh",
                "level_claimed": {"category": c.get("category", "model_checking"), "text": c["text"], "design_ref": c["design_ref"]},
                "level_note": c["note"],
                "technique": c["technique"],
            })
        else:
            na.append({"property_id": pid, "reason": NA.get(pid, PENDING_REASON)})
    m = {
        "version": 1,
        "setup_cmd": "python3 tools/setup.py",
        "hooks": {
            "guard": "deserr_verif",
            "enable": "harness/.cargo/config.toml passes --cfg deserr_verif to every harness build; no source hook exists in /repo (the scripted error type, probe types and second value source observe every event from outside)",
            "baseline_off_cmd": "cd /repo && cargo test --workspace --no-fail-fast --offline",
            "source_commits": [],
            "add_only": True,
        },
        "engines": [
            {"name": "tlc", "path": "spec/", "serves_properties": sorted(CLAIMED), "kind_free_text": "TLA+ specifications checked with TLC 1.8.0: exhaustive MC configs and monitor-style trace validation"},
            {"name": "dh", "path": "harness/dh", "serves_properties": sorted(CLAIMED), "kind_free_text": "Rust conformance harness: drives the real deserr with TLC replay records and seeded random inputs and records ndjson event traces"},
        ],
        "checks": checks,
        "notes": "See DESIGN.md. Exit codes of every command: 0 held on everything explored (KNOWN-FINDING lines possible), 1 with a VIOLATION line, 2 tool error/timeout (not a verdict). known_findings.json lists fixed and open findings.",
        "not_applicable": na,
    }
    json.dump(m, open(os.path.join(V, "MANIFEST.json"), "w"), indent=1)
    print("MANIFEST.json: %d checks, %d not_applicable" % (len(checks), len(na)))


NA = {}

if __name__ == "__main__":
    main()
