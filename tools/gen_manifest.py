#!/usr/bin/env python3
"""Regenerates MANIFEST.json from the table below (single source for the interface file)."""
import json, os
V = os.path.dirname(os.path.dirname(os.path.abspath(__file__)))

CLAIMED = {
 "C20": {
  "text": "The extractors are a three-step TLA+ pipeline (framework extractor -> deserr::deserialize -> respond) whose outcomes of the first two steps are environment; TLC checks the composition law against the independently worded clauses of the property and yields the request classes. The harness hh sends concrete requests of every class (bodies valid / ill-typed at depth 0,1,2 / malformed / empty / oversized; 7 content types; 5 actix JsonConfig variants as app data; query strings; JsonError and a user error type rendering 422) through the deserr extractor and through the framework's own Json<Value> / Query<Value> extractor followed by deserr::deserialize on identically built requests; TLC validates every line against the law (same value; framework rejections unchanged; deserr failures carry exactly E's rendering, for JsonError 400 with the message as body).",
  "note": "actix-web and axum are trusted as frameworks; in-process requests (TestRequest / http::Request), no sockets. QueryParamError has no HTTP rendering in deserr, so the query extractor is exercised with JsonError and a user error type.",
  "technique": "TLA+ pipeline model checked by TLC; differential conformance harness; impl->spec trace validation",
  "design_ref": "DESIGN.md section 5 (C20)",
 },
 "C01": {
  "text": "Guard at every return of the abstract machine: Ok only if no report was made since the frame was entered, Err only with exactly the bag of reports made since then (none dropped, none twice); Inv_C01 on the generative model over every obligation order x every Continue/Break sequence. Conformance: seeded type-directed payloads on the ~130 catalogue entries through both value sources under the keep-going script, every C^k B^w script, all scripts for few decisions, random scripts, built-in error types and permuted members; every canonical behaviour TLC finds on the small inputs is replayed; all traces validated by TLC (Trace_core).",
  "note": "Bounded: catalogue of ~130 hand-written entries (thorough: + 40 seeded random derive inputs); payload sizes <= 7/9 nodes for the exhaustive model, larger random payloads only through trace validation. First deviation wins per run. Trusted: TLC, Json module, std FromStr tables logged by the harness, the recording error type keeps what it is handed.",
  "technique": "TLA+ abstract deserialization machine: TLC model checking (all orders x answers) + spec->impl replay + impl->spec trace validation",
  "design_ref": "DESIGN.md sections 3-5 (C01)",
 },
 "C02": {
  "text": "The keep-going run's report bag equals the declarative Faults(type, payload) (independent wording, masking only by structural causes); a frame never returns while obligations are pending unless a stop was answered; checked on the model for all orders and on every all-Continue trace of the real code. Conformance: seeded type-directed payloads on the ~130 catalogue entries through both value sources under the keep-going script, every C^k B^w script, all scripts for few decisions, random scripts, built-in error types and permuted members; every canonical behaviour TLC finds on the small inputs is replayed; all traces validated by TLC (Trace_core).",
  "note": "Bounded: catalogue of ~130 hand-written entries (thorough: + 40 seeded random derive inputs); payload sizes <= 7/9 nodes for the exhaustive model, larger random payloads only through trace validation. First deviation wins per run. Trusted: TLC, Json module, std FromStr tables logged by the harness, the recording error type keeps what it is handed.",
  "technique": "TLA+ abstract deserialization machine: TLC model checking (all orders x answers) + spec->impl replay + impl->spec trace validation",
  "design_ref": "DESIGN.md sections 3-5 (C02)",
 },
 "C03": {
  "text": "After a stop answer the frame's only candidate is to return; with all later answers stop no new report is made (Inv_C03); every scripted run of the real code is compared event by event with the keep-going run of the same input up to its first stop; JsonError / QueryParamError results equal the rendered first report of the keep-going run. Conformance: seeded type-directed payloads on the ~130 catalogue entries through both value sources under the keep-going script, every C^k B^w script, all scripts for few decisions, random scripts, built-in error types and permuted members; every canonical behaviour TLC finds on the small inputs is replayed; all traces validated by TLC (Trace_core).",
  "note": "Bounded: catalogue of ~130 hand-written entries (thorough: + 40 seeded random derive inputs); payload sizes <= 7/9 nodes for the exhaustive model, larger random payloads only through trace validation. First deviation wins per run. Trusted: TLC, Json module, std FromStr tables logged by the harness, the recording error type keeps what it is handed.",
  "technique": "TLA+ abstract deserialization machine: TLC model checking (all orders x answers) + spec->impl replay + impl->spec trace validation",
  "design_ref": "DESIGN.md sections 3-5 (C03)",
 },
 "C04": {
  "text": "Every enter / report / hand-over location and quoted value is compared with what the machine computes from the payload by descent (child position = parent position + own step; actual = value there; hand-over location = the child's own position); Inv_C04 on the model. Conformance: seeded type-directed payloads on the ~130 catalogue entries through both value sources under the keep-going script, every C^k B^w script, all scripts for few decisions, random scripts, built-in error types and permuted members; every canonical behaviour TLC finds on the small inputs is replayed; all traces validated by TLC (Trace_core).",
  "note": "Bounded: catalogue of ~130 hand-written entries (thorough: + 40 seeded random derive inputs); payload sizes <= 7/9 nodes for the exhaustive model, larger random payloads only through trace validation. First deviation wins per run. Trusted: TLC, Json module, std FromStr tables logged by the harness, the recording error type keeps what it is handed.",
  "technique": "TLA+ abstract deserialization machine: TLC model checking (all orders x answers) + spec->impl replay + impl->spec trace validation",
  "design_ref": "DESIGN.md sections 3-5 (C04)",
 },
 "C06": {
  "text": "Arity / kind failures, element i from payload element i, set / map / Option / Box / CS semantics are clauses of Classify, Child and ValueAgrees; every success value of the real code is compared with the combination of the children's observed values; ValueOf / EqMod on the model. Conformance: seeded type-directed payloads on the ~130 catalogue entries through both value sources under the keep-going script, every C^k B^w script, all scripts for few decisions, random scripts, built-in error types and permuted members; every canonical behaviour TLC finds on the small inputs is replayed; all traces validated by TLC (Trace_core).",
  "note": "Bounded: catalogue of ~130 hand-written entries (thorough: + 40 seeded random derive inputs); payload sizes <= 7/9 nodes for the exhaustive model, larger random payloads only through trace validation. First deviation wins per run. Trusted: TLC, Json module, std FromStr tables logged by the harness, the recording error type keeps what it is handed.",
  "technique": "TLA+ abstract deserialization machine: TLC model checking (all orders x answers) + spec->impl replay + impl->spec trace validation",
  "design_ref": "DESIGN.md sections 3-5 (C06)",
 },
 "C07": {
  "text": "EffKey (rename > rename_all > identifier, camelCase / lowercase computed in the spec from identifier characters) routes members to fields; a field node entered for another key, or a value not taken from its key, has no candidate. Conformance: seeded type-directed payloads on the ~130 catalogue entries through both value sources under the keep-going script, every C^k B^w script, all scripts for few decisions, random scripts, built-in error types and permuted members; every canonical behaviour TLC finds on the small inputs is replayed; all traces validated by TLC (Trace_core).",
  "note": "Bounded: catalogue of ~130 hand-written entries (thorough: + 40 seeded random derive inputs); payload sizes <= 7/9 nodes for the exhaustive model, larger random payloads only through trace validation. First deviation wins per run. Trusted: TLC, Json module, std FromStr tables logged by the harness, the recording error type keeps what it is handed.",
  "technique": "TLA+ abstract deserialization machine: TLC model checking (all orders x answers) + spec->impl replay + impl->spec trace validation",
  "design_ref": "DESIGN.md sections 3-5 (C07)",
 },
 "C08": {
  "text": "Missing(f) obligations exist exactly for non-skipped, default-less fields whose effective key is routed from no member; skipped fields have no Enter candidate; defaults / map on top are part of ValueAgrees; custom missing functions are calls with (EffKey, container location). Conformance: seeded type-directed payloads on the ~130 catalogue entries through both value sources under the keep-going script, every C^k B^w script, all scripts for few decisions, random scripts, built-in error types and permuted members; every canonical behaviour TLC finds on the small inputs is replayed; all traces validated by TLC (Trace_core).",
  "note": "Bounded: catalogue of ~130 hand-written entries (thorough: + 40 seeded random derive inputs); payload sizes <= 7/9 nodes for the exhaustive model, larger random payloads only through trace validation. First deviation wins per run. Trusted: TLC, Json module, std FromStr tables logged by the harness, the recording error type keeps what it is handed.",
  "technique": "TLA+ abstract deserialization machine: TLC model checking (all orders x answers) + spec->impl replay + impl->spec trace validation",
  "design_ref": "DESIGN.md sections 3-5 (C08)",
 },
 "C09": {
  "text": "Unknown members are obligations only under deny_unknown_fields (report with Accepted in declaration order at the container location, or the user function called with key / accepted / location); without the attribute they are not obligations at all, so nothing about them can be observed. Conformance: seeded type-directed payloads on the ~130 catalogue entries through both value sources under the keep-going script, every C^k B^w script, all scripts for few decisions, random scripts, built-in error types and permuted members; every canonical behaviour TLC finds on the small inputs is replayed; all traces validated by TLC (Trace_core).",
  "note": "Bounded: catalogue of ~130 hand-written entries (thorough: + 40 seeded random derive inputs); payload sizes <= 7/9 nodes for the exhaustive model, larger random payloads only through trace validation. First deviation wins per run. Trusted: TLC, Json module, std FromStr tables logged by the harness, the recording error type keeps what it is handed.",
  "technique": "TLA+ abstract deserialization machine: TLC model checking (all orders x answers) + spec->impl replay + impl->spec trace validation",
  "design_ref": "DESIGN.md sections 3-5 (C09)",
 },
 "C10": {
  "text": "Classify of enum nodes: tag lookup, missing / non-string / unknown tag reports at the stated places, variant selected by exact VariantKey, fields read by the variant's own rules from the remaining members; unit enums by exact string with all variant keys listed. Conformance: seeded type-directed payloads on the ~130 catalogue entries through both value sources under the keep-going script, every C^k B^w script, all scripts for few decisions, random scripts, built-in error types and permuted members; every canonical behaviour TLC finds on the small inputs is replayed; all traces validated by TLC (Trace_core).",
  "note": "Bounded: catalogue of ~130 hand-written entries (thorough: + 40 seeded random derive inputs); payload sizes <= 7/9 nodes for the exhaustive model, larger random payloads only through trace validation. First deviation wins per run. Trusted: TLC, Json module, std FromStr tables logged by the harness, the recording error type keeps what it is handed.",
  "technique": "TLA+ abstract deserialization machine: TLC model checking (all orders x answers) + spec->impl replay + impl->spec trace validation",
  "design_ref": "DESIGN.md sections 3-5 (C10)",
 },
 "C11": {
  "text": "Call / Ret of from, try_from, map, validate and the merges that follow a failure are machine events with their own phases (conversion only after a good intermediate exit, map and validate only in frames without failure, merge first under the field's error type then into the container's); Inv_C11 on the model. Conformance: seeded type-directed payloads on the ~130 catalogue entries through both value sources under the keep-going script, every C^k B^w script, all scripts for few decisions, random scripts, built-in error types and permuted members; every canonical behaviour TLC finds on the small inputs is replayed; all traces validated by TLC (Trace_core).",
  "note": "Bounded: catalogue of ~130 hand-written entries (thorough: + 40 seeded random derive inputs); payload sizes <= 7/9 nodes for the exhaustive model, larger random payloads only through trace validation. First deviation wins per run. Trusted: TLC, Json module, std FromStr tables logged by the harness, the recording error type keeps what it is handed.",
  "technique": "TLA+ abstract deserialization machine: TLC model checking (all orders x answers) + spec->impl replay + impl->spec trace validation",
  "design_ref": "DESIGN.md sections 3-5 (C11)",
 },
 "C12": {
  "text": "Panic sites are not transitions: the generative model is checked for absence of deadlock before Done, for termination, and evaluates no result of a missing obligation; every harness call runs under catch_unwind and a panic event is a violation; adversarial drivers (extreme numbers, duplicate keys, depth 30 spelled out, depth 127 described). Conformance: seeded type-directed payloads on the ~130 catalogue entries through both value sources under the keep-going script, every C^k B^w script, all scripts for few decisions, random scripts, built-in error types and permuted members; every canonical behaviour TLC finds on the small inputs is replayed; all traces validated by TLC (Trace_core).",
  "note": "Bounded: catalogue of ~130 hand-written entries (thorough: + 40 seeded random derive inputs); payload sizes <= 7/9 nodes for the exhaustive model, larger random payloads only through trace validation. First deviation wins per run. Trusted: TLC, Json module, std FromStr tables logged by the harness, the recording error type keeps what it is handed.",
  "technique": "TLA+ abstract deserialization machine: TLC model checking (all orders x answers) + spec->impl replay + impl->spec trace validation",
  "design_ref": "DESIGN.md sections 3-5 (C12)",
 },
 "C14": {
  "text": "For every report of a keep-going run over serde_json the real JsonError and QueryParamError renderings are logged and their back-quoted segments compared (as a bag) with what DMessages prescribes from the structured report: path (query without leading dot), value parsed back, names, every alternative, a suggestion exactly when an alternative is within the typo budget (naming one of those), detail segments; lengths; JsonError's path read back resolves to the quoted value. Conformance: seeded type-directed payloads on the ~130 catalogue entries through both value sources under the keep-going script, every C^k B^w script, all scripts for few decisions, random scripts, built-in error types and permuted members; every canonical behaviour TLC finds on the small inputs is replayed; all traces validated by TLC (Trace_core).",
  "note": "Bounded: catalogue of ~130 hand-written entries (thorough: + 40 seeded random derive inputs); payload sizes <= 7/9 nodes for the exhaustive model, larger random payloads only through trace validation. First deviation wins per run. Trusted: TLC, Json module, std FromStr tables logged by the harness, the recording error type keeps what it is handed.",
  "technique": "TLA+ abstract deserialization machine: TLC model checking (all orders x answers) + spec->impl replay + impl->spec trace validation",
  "design_ref": "DESIGN.md sections 3-5 (C14)",
 },
 "C15": {
  "text": "The model picks obligations in any order, so Inv_C02 / Inv_C15 (result = order-free Faults / ValueOf) hold over all member orders; the real code is run on permuted members through the order-preserving value source and each outcome is compared with the reference run of the same input. Conformance: seeded type-directed payloads on the ~130 catalogue entries through both value sources under the keep-going script, every C^k B^w script, all scripts for few decisions, random scripts, built-in error types and permuted members; every canonical behaviour TLC finds on the small inputs is replayed; all traces validated by TLC (Trace_core).",
  "note": "Bounded: catalogue of ~130 hand-written entries (thorough: + 40 seeded random derive inputs); payload sizes <= 7/9 nodes for the exhaustive model, larger random payloads only through trace validation. First deviation wins per run. Trusted: TLC, Json module, std FromStr tables logged by the harness, the recording error type keeps what it is handed.",
  "technique": "TLA+ abstract deserialization machine: TLC model checking (all orders x answers) + spec->impl replay + impl->spec trace validation",
  "design_ref": "DESIGN.md sections 3-5 (C15)",
 },

 "C16": {
  "text": "The derive front end is a TLA+ state machine (DDerive: items consumed one by one into single-valued slots, then the final attribute-combination and shape checks). TLC explores every item sequence of <= 2 (quick) / <= 3 (thorough) items at container, variant and field level in every grouping, valid / invalid value / malformed, and every shape, and checks NoOverride, NoDrop, PoisonRejected, OnlyPoisonRejected and that the machine equals its functional form. Every decided input (2 236 quick; thorough: those plus a seeded sample of 5 000 three-item inputs) is rendered to a Rust item and compiled against the working tree; TLC validates per input that everything the property lists is rejected by a diagnostic issued by the derive and never by a panic, and that an input it does not list either compiles or is refused by the derive itself.",
  "note": "One representative item per shape/level (named struct, tagged enum); helper functions are well typed. A diagnostic without error code is taken to be issued by the derive. Bounded by item-sequence length.",
  "technique": "TLA+ state machine of the attribute parser + TLC exhaustive exploration; spec->impl replay through rustc; impl->spec trace validation of compiler diagnostics",
  "design_ref": "DESIGN.md section 5 (C16)",
 },
 "C13": {
  "text": "The bridge is four TLA+ functions transcribed from src/serde_json.rs (kind chain, into_value chain, From<Value>, Deserr for Value) plus the classification rule LitHolds. TLC checks on 959 small documents over number literals at every classification boundary that kinds agree at every node and that the round trip is the identity; every document and seeded random documents are parsed by serde_json and the real kind()/into_value()/From/Deserr observations are validated line by line by TLC (per-node kind agreement and classification by literal, view = ViewOf(held), both back-conversions = held, no error).",
  "note": "serde_json is trusted as parser and as holder of numbers. Nesting of validated documents is limited to ~80 levels by the Gson nesting limit of TLC's Json module (deeper nests are exercised by the C12 check).",
  "technique": "TLA+ transcription + small-scope TLC enumeration; spec->impl replay; impl->spec trace validation",
  "design_ref": "DESIGN.md section 5 (C13)",
 },
 "C05": {
  "text": "Outcome(target, value) is a TLA+ function over digit sequences (exact bounds up to 2^128). TLC enumerates 30 targets x the 2^k boundary universe in both integer forms x every other kind (17 400 points) and checks Outcome against independently worded facts (ok iff admissible and in domain, violated bound really violated, widening, 128-bit targets accept all of u64/i64); every point is replayed through the real impls via serde_json and a second value source, every integer of [-70000,70000] is swept for every target/form/source and validated by TLC per run-length-encoded stretch, plus seeded random numbers, strings and f32 double-rounding witnesses. Structured results (value, accepted kinds, digit runs of the message) are validated line by line by TLC.",
  "note": "IEEE rounding into f32/f64 is decided by a harness-side oracle independent of `as` (exact decimal expansion + correctly rounded parse), not by TLA+. 64-bit usize assumed. Message wording is not compared: only the received number, the violated bound, 'zero'/'empty', the string and its length.",
  "technique": "TLA+ function definition checked by TLC on a boundary universe; spec->impl replay; impl->spec trace validation incl. exhaustive sweep",
  "design_ref": "DESIGN.md section 5 (C05)",
 },
 "C18": {
  "text": "The suggestion rule (byte-length budget, unrestricted Damerau-Levenshtein distance over scalar values, earliest minimal candidate) is a TLA+ function. TLC proves on every pair of strings over a 3-symbol alphabet up to length 4 (quick) / 5 (thorough) that the Lowrance-Wagner DP used by the spec equals the shortest-path distance of the four-operation edit graph (Zero/Lipschitz/Descent invariants) and checks the structural facts of the property; all enumerated (received, candidates) inputs, a wide alphabet with 2- and 4-byte symbols, and seeded random multi-candidate lists around every byte threshold are executed on the real did_you_mean and for each call TLC validates that the result is empty or names (between back-quotes) exactly the accepted string the specification computes.",
  "note": "Bounded: exhaustive pairs up to length 4/5 over 3 symbols; random strings up to 30 bytes, lists up to ~10 candidates. Trusted: TLC, Json module, harness s.chars() encoding.",
  "technique": "TLA+ function definition with TLC-checked inductive characterisation of the distance; exhaustive spec->impl replay; impl->spec trace validation",
  "design_ref": "DESIGN.md section 5 (C18)",
 },
 "C17": {
  "text": "TLC enumerates every list of <= 5 (quick) / 6 (thorough) value kinds with repetitions and checks that the TLA+ transcription of sort+dedup+description_rec equals the declarative set-based phrase DescSpec and is invariant under adjacent swaps; every enumerated list, all 256 subsets in random permutations with repetitions and random longer lists are executed on the real value_kinds_description_json and each (input, output, items) line is validated by TLC against what the property fixes (set dependence, exact cover with 'a number' / 'an integer' merging, join grammar, one fixed order for all inputs); the individual names, the fallback text and which order it is are observed once (probe line) and must be injective / antisymmetric.",
  "note": "Bounded: lists up to length 5/6 exhaustively, random lists up to 12/14. Trusted: TLC string concatenation, the Json module.",
  "technique": "TLA+ definition of the phrase (set-based spec + transcription) checked by TLC; exhaustive spec->impl replay and impl->spec trace validation",
  "design_ref": "DESIGN.md section 5 (C17)",
 },
 "C19": {
  "text": "TLC explores the DPointer state machine (push_key/push_index/return over the linked-list representation of src/value.rs) exhaustively for all paths of <= 6 (quick) / 8 (thorough) steps and checks the refinement invariant to the abstract path and the persistence action property; every explored path is replayed through the real ValuePointerRef and the four observations after every push and after every return are validated against the same TLA+ definitions by TLC trace validation, plus seeded random long paths and random walks over trees of locations (siblings sharing a prefix).",
  "note": "Bounded: paths of <= 6/8 steps exhaustively, random paths up to 40/200 steps. Trusted: TLC, the Json module, derived Debug of the owned pointer components.",
  "technique": "TLA+ state machine + TLC exhaustive model checking; spec->impl replay and impl->spec trace validation",
  "design_ref": "DESIGN.md section 5 (C19)",
 },
}

PENDING_REASON = "check under construction in this round: the TLA+ module and harness driver for it are not committed yet (see DESIGN.md section 5 for the planned decision)"


def main():
    props = [json.loads(l) for l in open(os.path.join(V, "properties.jsonl"))]
    checks, na = [], []
    for p in props:
        pid = p["id"]
        if pid in CLAIMED:
            c = CLAIMED[pid]
            checks.append({
                "property_id": pid,
                "quick_cmd": "python3 tools/check.py %s --tier quick" % pid,
                "thorough_cmd": "python3 tools/check.py %s --tier thorough" % pid,
                "evidence_file": "evidence/%s.json" % pid,
                "replay_cmd_template": "python3 tools/check.py %s --replay {path}" % pid,
                "engine": "tlc+dh",
                "level_claimed": {"category": c.get("category", "model_checking"), "text": c["text"], "design_ref": c["design_ref"]},
                "level_note": c["note"],
                "technique": c["technique"],
            })
        else:
            na.append({"property_id": pid, "reason": NA.get(pid, PENDING_REASON)})
    m = {
        "version": 1,
        "setup_cmd": "python3 tools/setup.py",
        "hooks": {
            "guard": "deserr_verif",
            "enable": "harness/.cargo/config.toml passes --cfg deserr_verif to every harness build; no source hook exists in /repo (the scripted error type, probe types and second value source observe every event from outside)",
            "baseline_off_cmd": "cd /repo && cargo test --workspace --no-fail-fast --offline",
            "source_commits": [],
            "add_only": True,
        },
        "engines": [
            {"name": "tlc", "path": "spec/", "serves_properties": sorted(CLAIMED), "kind_free_text": "TLA+ specifications checked with TLC 1.8.0: exhaustive MC configs and monitor-style trace validation"},
            {"name": "dh", "path": "harness/dh", "serves_properties": sorted(CLAIMED), "kind_free_text": "Rust conformance harness: drives the real deserr with TLC replay records and seeded random inputs and records ndjson event traces"},
        ],
        "checks": checks,
        "notes": "See DESIGN.md. Exit codes of every command: 0 held on everything explored (KNOWN-FINDING lines possible), 1 with a VIOLATION line, 2 tool error/timeout (not a verdict). known_findings.json lists fixed and open findings.",
        "not_applicable": na,
    }
    json.dump(m, open(os.path.join(V, "MANIFEST.json"), "w"), indent=1)
    print("MANIFEST.json: %d checks, %d not_applicable" % (len(checks), len(na)))


NA = {}

if __name__ == "__main__":
    main()
