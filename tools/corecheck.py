"""Checks of the core properties (C01-C04, C06-C12, C15, and the message part C14) on the abstract
deserialization machine spec/Deserr.tla:

  1. the Rust catalogue is (re)generated and the harness rebuilt against /repo's working tree;
  2. seeded type-directed inputs are executed by the real code (reference keep-going run, every
     C^k B^w script, all scripts for few decisions, random scripts, built-in error types, permuted
     members) and recorded as event traces;
  3. TLC model-checks the generative machine (MC_core: every obligation order x every answer sequence)
     on the small inputs of that same universe, and prints one REPLAY record per canonical behaviour,
     which the harness executes too (spec -> impl);
  4. every trace is validated by TLC against the same machine (Trace_core, impl -> spec); deviations
     charged to the property under check are violations.
"""
import json, os, random, subprocess, sys, time
import vlib, helpers, coregen, randdefs
import gen_catalogue
from vlib import log

CORE_PROPS = ["C01", "C02", "C03", "C04", "C06", "C07", "C08", "C09", "C10", "C11", "C12", "C14", "C15"]

# per property: which entries get extra weight and which auto-expansion is used
PROFILE = {
    "default": {"n": {"quick": 10, "thorough": 60}, "auto": {"prefix_cap": 8, "all_upto": 4, "random": 2, "builtin": True}, "perms": 2},
    "C01": {"n": {"quick": 10, "thorough": 60}, "auto": {"prefix_cap": 8, "all_upto": 6, "random": 4, "builtin": True}, "perms": 1},
    "C03": {"n": {"quick": 10, "thorough": 60}, "auto": {"prefix_cap": 14, "all_upto": 6, "random": 6, "builtin": True}, "perms": 0},
    "C15": {"n": {"quick": 10, "thorough": 60}, "auto": {"prefix_cap": 0, "all_upto": 0, "random": 0, "builtin": False}, "perms": 6},
    "C14": {"n": {"quick": 14, "thorough": 80}, "auto": {"prefix_cap": 0, "all_upto": 0, "random": 0, "builtin": True}, "perms": 0, "json_only": True,
            "faulty": True},
    "C09": {"n": {"quick": 10, "thorough": 60}, "auto": {"prefix_cap": 8, "all_upto": 4, "random": 2, "builtin": True}, "perms": 1, "extras": True},
    "C12": {"n": {"quick": 10, "thorough": 60}, "auto": {"prefix_cap": 6, "all_upto": 3, "random": 3, "builtin": True}, "perms": 1},
}


def profile(pid):
    return PROFILE.get(pid, PROFILE["default"])


def size(v):
    if v["t"] == "seq":
        return 1 + sum(size(x) for x in v["e"])
    if v["t"] == "map":
        return 1 + sum(size(m["v"]) for m in v["e"])
    return 1


def width(v):
    if v["t"] == "seq":
        return max([len(v["e"])] + [width(x) for x in v["e"]])
    if v["t"] == "map":
        return max([len(v["e"])] + [width(m["v"]) for m in v["e"]])
    return 0


def collide_inputs(ents, rng):
    """map targets fed with two members whose keys parse to the same key (finding F5), permuted"""
    out = []
    for eid, ty in ents:
        if ty[0] in ("hmap", "bmap") and ty[1] in coregen.COLLIDE and ty[2] == ("scalar", "u8"):
            for a, b in coregen.COLLIDE[ty[1]]:
                val = coregen.vmap([(a, coregen.vint(1)), (b, coregen.vint(2))])
                out.append({"ty": eid, "val": val, "src": "ov", "grp": "start", "perm": False,
                            "auto": {"prefix_cap": 0, "all_upto": 0, "random": 0, "builtin": False},
                            "perms": [coregen.vmap([(b, coregen.vint(2)), (a, coregen.vint(1))])], "tag": "collide"})
    return out


def adversarial_inputs(ents, rng):
    """C12: shapes meant to reach the panic sites: empty containers, wrong kinds everywhere, duplicate keys,
    extreme numbers, deep nesting (depth 128 payloads are flagged `deep`: their payload-dependent guards are skipped)"""
    out = []
    extremes = [coregen.vint(2**64 - 1), coregen.vneg(-2**63), coregen.vfloat(0.0), coregen.vfloat(-0.0), coregen.vfloat(5e-324),
                coregen.vfloat(1e308), coregen.vfloat(float("inf")), coregen.vfloat(float("nan")), coregen.vneg(5), coregen.vneg(0),
                coregen.vstr(""), coregen.vseq([]), coregen.vmap([])]
    auto = {"prefix_cap": 3, "all_upto": 0, "random": 1, "builtin": True}
    for eid, ty in ents:
        for v in extremes:
            out.append({"ty": eid, "val": v, "src": "ov", "grp": "start", "perm": False, "auto": auto, "perms": []})
        # duplicate keys / repeated tag through the second value source
        if ty[0] == "ref" and any(x["name"] == ty[1] for x in coregen.C.DEFS):
            d = [x for x in coregen.C.DEFS if x["name"] == ty[1]][0]
            fields = d["fields"] if d["kind"] == "struct" else next((v["fields"] for v in d["variants"] if v["fields"]), None)
            if fields:
                f = fields[0]
                k = coregen.G.unraw(f["ident"])
                ms = [(k, coregen.vint(1)), (k, coregen.vstr("x")), (k, coregen.vint(2))]
                if d["kind"] == "enum" and d.get("tag"):
                    ms += [(d["tag"], coregen.vstr(coregen.G.unraw(d["variants"][-1]["ident"]))), (d["tag"], coregen.vint(1))]
                out.append({"ty": eid, "val": coregen.vmap(ms), "src": "ov", "grp": "start", "perm": False, "auto": auto, "perms": []})
                # the same key twice with valid values and nothing else wrong: as many members as the type has keys, or one more,
                # while another field is absent (counting members instead of tracking fields would go wrong here)
                pg = coregen.PayloadGen(rng)
                var = next(v for v in d["variants"] if v["fields"]) if d["kind"] == "enum" else None
                vname = None if var is None else (var["rename"] if var.get("rename") is not None else
                                                  (coregen.camel(coregen.G.unraw(var["ident"])) if d.get("rename_all") == "camelCase" else
                                                   (coregen.G.unraw(var["ident"]).lower() if d.get("rename_all") == "lowercase" else coregen.G.unraw(var["ident"]))))
                tagms = [(d["tag"], coregen.vstr(vname))] if d["kind"] == "enum" and d.get("tag") else []
                keyof = lambda ff: coregen.effkey(d, ff, var)
                gv = lambda ff: pg.gen(ff["from"]["ty"] if ff.get("from") else ff["ty"], 0.0)
                if d["kind"] == "struct" or tagms:
                    for reps in (len(fields), len(fields) + 1, 2):
                        out.append({"ty": eid, "val": coregen.vmap(tagms + [(keyof(f), gv(f)) for _ in range(reps)]), "src": "ov", "grp": "start",
                                    "perm": False, "auto": auto, "perms": []})
                    if len(fields) >= 2:
                        out.append({"ty": eid, "val": coregen.vmap(tagms + [(keyof(ff), gv(ff)) for ff in fields[:-1]] + [(keyof(f), gv(f))]), "src": "ov",
                                    "grp": "start", "perm": False, "auto": auto, "perms": []})
        # nesting: the payload nested 40 levels inside sequences / objects (the Json module of TLC stops at ~250 levels)
        v = coregen.vint(1)
        for i in range(30):
            v = coregen.vseq([v]) if i % 2 == 0 else coregen.vmap([("a", v)])
        out.append({"ty": eid, "val": v, "src": "ov", "grp": "start", "perm": False, "auto": {"prefix_cap": 1, "all_upto": 0, "random": 0, "builtin": True},
                    "perms": []})
        # depth 128 (what serde_json accepts when parsing text), described instead of spelled out; only totality is judged
        for src in ("ov", "json"):
            out.append({"ty": eid, "val": coregen.vnull(), "src": src, "grp": "start", "perm": False, "deep": True, "deepgen": {"depth": 127},
                        "auto": {"prefix_cap": 1, "all_upto": 0, "random": 0, "builtin": True}, "perms": []})
    return out


def systematic_inputs(ents, rng, auto, nperms, extra_defs=()):
    """deterministic coverage of key / tag spellings and of map-key faults: every derived root type with every field (variant)
    written in each plausible spelling (identifier, camelCase, lowercase, rename, upper case), each field deleted or nulled once,
    and for map targets with fallible keys every combination of good / bad key and good / bad value in every order"""
    out = []
    pg = coregen.PayloadGen(rng, extra_defs)
    forms = [lambda f: coregen.G.unraw(f["ident"]), lambda f: coregen.camel(coregen.G.unraw(f["ident"])), lambda f: coregen.G.unraw(f["ident"]).lower(),
             lambda f: f["rename"] if f["rename"] is not None else coregen.G.unraw(f["ident"]), lambda f: coregen.G.unraw(f["ident"]).upper(),
             lambda f: " " + (f["rename"] if f["rename"] is not None else coregen.G.unraw(f["ident"])),            # padded: another key
             lambda f: coregen.camel(coregen.G.unraw(f["ident"])) + " ", lambda f: coregen.G.unraw(f["ident"]).lower() + "\t"]

    def vforms(v):
        i = coregen.G.unraw(v["ident"])
        return [i, coregen.camel(i), i.lower(), v["rename"] if v["rename"] is not None else i, i.upper(),
                " " + (v["rename"] if v["rename"] is not None else i), coregen.camel(i) + " ", i.lower() + " "]

    def fval(f):
        return pg.gen(f["from"]["ty"] if f.get("from") else f["ty"], 0.0)

    def add(eid, val, src="ov"):
        perms = [coregen.permute(val, rng) for _ in range(nperms)] if nperms and coregen.count_maps(val) else []
        out.append({"ty": eid, "val": val, "src": src, "grp": "start", "perm": False, "auto": auto, "perms": perms})

    for eid, ty in ents:
        if ty[0] == "ref":
            d = pg.defs[ty[1]]
            if d["kind"] == "struct" and not d.get("cfrom"):
                fs = d["fields"]
                for fm in forms:
                    add(eid, coregen.vmap(coregen.dedup([(fm(f), fval(f)) for f in fs])))
                for fm in forms[:4]:
                    for k in range(len(fs)):
                        add(eid, coregen.vmap(coregen.dedup([(fm(f), fval(f)) for j, f in enumerate(fs) if j != k])))
                        add(eid, coregen.vmap(coregen.dedup([(fm(f), coregen.vnull() if j == k else fval(f)) for j, f in enumerate(fs)])))
            elif d["kind"] == "enum" and d["tag"]:
                # a tag of every kind that is not a string, through both value sources (the tag is taken out with Map::remove, which
                # each source implements itself), next to the members of a variant; and the tag absent
                v0 = d["variants"][-1]
                base = [(coregen.effkey(d, f, v0), fval(f)) for f in (v0["fields"] or [])]
                for tv in (coregen.vnull(), coregen.vint(1), coregen.vint(0), coregen.vneg(-1), coregen.vbool(True), coregen.vfloat(1.5),
                           coregen.vseq([]), coregen.vseq([coregen.vstr(coregen.G.unraw(v0["ident"]))]), coregen.vmap([]), coregen.vstr("")):
                    for src in ("json", "ov"):
                        add(eid, coregen.vmap(coregen.dedup(base + [(d["tag"], tv)])), src)
                        add(eid, coregen.vmap(coregen.dedup([(d["tag"], tv)] + base)), src)
                add(eid, coregen.vmap(coregen.dedup(base)), "json")
                # the tag absent while a member's key is a near miss of it / its camelCase / lower-case form
                for near in (coregen.transposed(d["tag"]), coregen.camel(d["tag"]), d["tag"].lower(), d["tag"].upper(), d["tag"] + "s"):
                    if near != d["tag"]:
                        add(eid, coregen.vmap(coregen.dedup(base + [(near, coregen.vstr(coregen.G.unraw(v0["ident"])))])), "json")
                # every variant under its effective name with its members and one member it does not know (denied or ignored)
                for v in d["variants"]:
                    i = coregen.G.unraw(v["ident"])
                    vn = v["rename"] if v["rename"] is not None else (coregen.camel(i) if d.get("rename_all") == "camelCase" else (i.lower() if d.get("rename_all") == "lowercase" else i))
                    ms = [(d["tag"], coregen.vstr(vn))] + [(coregen.effkey(d, f, v), fval(f)) for f in (v["fields"] or [])]
                    for src in ("json", "ov"):
                        add(eid, coregen.vmap(coregen.dedup(ms + [("zz", coregen.vint(1))])), src)
                        add(eid, coregen.vmap(coregen.dedup([("zz", coregen.vseq([]))] + ms + [("yy", coregen.vnull())])), src)
                for v in d["variants"]:
                    for tn in vforms(v):
                        for fm in forms[:4]:
                            ms = [(d["tag"], coregen.vstr(tn))] + [(fm(f), fval(f)) for f in (v["fields"] or [])]
                            add(eid, coregen.vmap(coregen.dedup(ms)))
                            if not v["fields"]:
                                break
            elif d["kind"] == "enum":
                for v in d["variants"]:
                    for tn in vforms(v):
                        add(eid, coregen.vstr(tn))
        if ty[0] == "jvalue" or (ty[0] in ("vec", "opt", "box") and ty[1][0] == "jvalue"):
            # documents a JSON value cannot hold (non-finite floats through the second value source), several of them under different
            # members and at different depths, in every member order
            import itertools
            inf, nan = coregen.vfloat(float("inf")), coregen.vfloat(float("nan"))
            docs = [coregen.vmap([("a", inf), ("b", coregen.vint(1)), ("c", nan)]),
                    coregen.vmap([("x", coregen.vseq([nan, coregen.vint(2)])), ("y", inf)]),
                    coregen.vseq([inf, coregen.vmap([("k", nan), ("l", coregen.vseq([inf]))])]),
                    coregen.vmap([("m", coregen.vmap([("p", nan), ("q", inf)])), ("n", coregen.vfloat(1.5))]),
                    coregen.vmap([("b", coregen.vint(1)), ("a", coregen.vstr("x"))])]
            for doc in docs:
                val = coregen.vseq([doc, doc]) if ty[0] == "vec" else doc
                perms = ([dict(val, e=list(pm)) for pm in itertools.permutations(val["e"])][1:] if val["t"] == "map" else [coregen.permute(val, rng)]) if nperms else []
                out.append({"ty": eid, "val": val, "src": "ov", "grp": "start", "perm": False, "auto": auto, "perms": perms})
        if ty[0] in ("hmap", "bmap"):
            # keys that differ by surrounding white space only are different keys (and not numbers)
            g0 = coregen.KEYPOOL[ty[1]][1]
            val = coregen.vmap(coregen.dedup([(g0, pg.gen(ty[2], 0.0)), (" " + g0, pg.gen(ty[2], 0.0)), (g0 + " ", pg.gen(ty[2], 0.0))]))
            out.append({"ty": eid, "val": val, "src": "ov", "grp": "start", "perm": False, "auto": auto, "perms": []})
        if ty[0] in ("hmap", "bmap") and coregen.BADKEYS[ty[1]]:
            good, bad = coregen.KEYPOOL[ty[1]], coregen.BADKEYS[ty[1]]
            gv = lambda: pg.gen(ty[2], 0.0)
            bv = lambda: pg.wrong({"int", "neg", "seq", "bool"} if ty[2][0] == "scalar" and ty[2][1] in ("u8", "bool") else {"seq"})
            combos = [[(good[0], gv()), (bad[0], gv())], [(bad[0], gv()), (good[0], bv())], [(good[0], bv()), (bad[0], gv()), (good[1], gv())],
                      [(bad[0], gv()), (bad[-1] if bad[-1] != bad[0] else bad[0] + "q", gv())], [(good[0], bv()), (good[1], bv())],
                      [(bad[0], bv()), (good[0], gv())]]
            for ms in combos:
                val = coregen.vmap(coregen.dedup(ms))
                import itertools
                perms = [dict(val, e=list(pm)) for pm in itertools.permutations(val["e"])][1:] if nperms else []
                out.append({"ty": eid, "val": val, "src": "ov", "grp": "start", "perm": False, "auto": auto, "perms": perms})
    return out


def positional_inputs(ents, rng, extra_defs=()):
    """C04 / C06: sequences of length 0..3 (arity +-1 for arrays and tuples) with a fault at every subset of positions, so that a
    wrong index or a dropped element cannot hide behind position 0"""
    import itertools
    out = []
    pg = coregen.PayloadGen(rng, extra_defs)
    auto = {"prefix_cap": 4, "all_upto": 3, "random": 0, "builtin": True}

    def elem_ty(ty, i):
        return ty[1][i % len(ty[1])] if ty[0] == "tup" else ty[1]

    for eid, ty in ents:
        if ty[0] not in ("vec", "hset", "bset", "arr", "tup"):
            continue
        if ty[0] == "arr":
            lens = sorted({max(0, ty[2] - 1), ty[2], ty[2] + 1})
        elif ty[0] == "tup":
            lens = sorted({len(ty[1]) - 1, len(ty[1]), len(ty[1]) + 1})
        else:
            lens = [0, 1, 2, 3]
        for n in lens:
            for bad in itertools.product((False, True), repeat=n):
                es = []
                for i, b in enumerate(bad):
                    et = elem_ty(ty, i)
                    es.append(coregen.vmap([("q", coregen.vseq([coregen.vint(i)]))]) if b and et[0] not in ("jvalue", "phantom", "ref") else
                              (coregen.vseq([coregen.vmap([])]) if b else pg.gen(et, 0.0)))
                out.append({"ty": eid, "val": coregen.vseq(es), "src": "ov" if n % 2 else "json", "grp": "start", "perm": False, "auto": auto, "perms": []})
        if ty[0] in ("hset", "bset"):
            # an element repeated before a faulty one, before a good one and after a faulty one: positions are payload positions,
            # not positions in the set being built
            g1, g2 = pg.gen(ty[1], 0.0), pg.gen(ty[1], 0.0)
            bad = coregen.vseq([coregen.vmap([])]) if ty[1][0] in ("ref", "jvalue", "phantom") else coregen.vmap([("q", coregen.vseq([coregen.vint(0)]))])
            for es in ([g1, g1, bad], [g1, g1, g2, bad, g2], [bad, g1, g1, bad], [g1, g1, g1]):
                for src in ("ov", "json"):
                    out.append({"ty": eid, "val": coregen.vseq(es), "src": src, "grp": "start", "perm": False, "auto": auto, "perms": []})
    return out


def perm_fault_inputs(ents, rng, extra_defs=()):
    """C15: small derived structs with every field independently valid / rejected by its conversion function / of a wrong kind,
    presented in every member order"""
    import itertools
    out = []
    pg = coregen.PayloadGen(rng, extra_defs)
    auto = {"prefix_cap": 0, "all_upto": 0, "random": 0, "builtin": False}
    for eid, ty in ents:
        if ty[0] != "ref":
            continue
        d = pg.defs[ty[1]]
        if d["kind"] != "struct" or d.get("cfrom") or not (2 <= len(d["fields"]) <= 3):
            continue
        for states in itertools.product(("ok", "conv", "bad"), repeat=len(d["fields"])):
            if all(st == "ok" for st in states):
                continue
            ms = []
            for f, st in zip(d["fields"], states):
                fty = f["from"]["ty"] if f.get("from") else f["ty"]
                key = f["rename"] if f["rename"] is not None else (coregen.camel(coregen.G.unraw(f["ident"])) if d["rename_all"] == "camelCase" else coregen.G.unraw(f["ident"]))
                if st == "ok":
                    ms.append((key, pg.gen(fty, 0.0)))
                elif st == "conv":       # values the catalogue's fallible functions reject: odd numbers, strings with '!'
                    ms.append((key, coregen.vint(3) if fty[0] == "scalar" and fty[1] not in ("String", "bool", "char") else (coregen.vstr("x!") if fty == ("scalar", "String") else pg.gen(fty, 0.0))))
                else:
                    ms.append((key, coregen.vmap([("q", coregen.vseq([]))])))
            val = coregen.vmap(coregen.dedup(ms))
            perms = [dict(val, e=list(pm)) for pm in itertools.permutations(val["e"])][1:]
            out.append({"ty": eid, "val": val, "src": "ov", "grp": "start", "perm": False, "auto": auto, "perms": perms})
    return out


def subset_inputs(ents, rng, maxfields, extra_defs=()):
    """C08: every way of deleting, nulling or corrupting any subset of the keys of the small structs: each field independently
    present-and-valid / absent / null / of a wrong kind, under two spellings of the keys"""
    import itertools
    out = []
    pg = coregen.PayloadGen(rng, extra_defs)
    auto = {"prefix_cap": 2, "all_upto": 0, "random": 0, "builtin": True}
    forms = [lambda f: coregen.G.unraw(f["ident"]),
             lambda f: f["rename"] if f["rename"] is not None else coregen.camel(coregen.G.unraw(f["ident"]))]
    for eid, ty in ents:
        if ty[0] != "ref":
            continue
        d = pg.defs[ty[1]]
        if d["kind"] != "struct" or d.get("cfrom") or not (1 <= len(d["fields"]) <= maxfields):
            continue
        for fm in forms:
            for states in itertools.product(("ok", "absent", "null", "bad"), repeat=len(d["fields"])):
                ms = []
                for f, st in zip(d["fields"], states):
                    fty = f["from"]["ty"] if f.get("from") else f["ty"]
                    if st == "ok":
                        ms.append((fm(f), pg.gen(fty, 0.0)))
                    elif st == "null":
                        ms.append((fm(f), coregen.vnull()))
                    elif st == "bad":
                        ms.append((fm(f), coregen.vmap([("q", coregen.vseq([]))])))     # no field of the catalogue's small structs accepts this
                out.append({"ty": eid, "val": coregen.vmap(coregen.dedup(ms)), "src": "json", "grp": "start", "perm": False, "auto": auto, "perms": []})
    return out


def golden_inputs(ents, rng, auto, nperms, extra_defs=()):
    """every entry with payloads meant to succeed all the way (every field under its effective key, right tag, nothing stray), with
    integer leaves that pass every user function of the catalogue (4), that only the `validate` functions reject (2), that the
    conversions reject (3), and mixtures: the success paths, `map` / `validate` and their failures are reached in every check"""
    out = []
    for numbers in ([4], [2], [3], [4, 2], [4, 3], [4, 4, 2, 3]):
        pg = coregen.PayloadGen(rng, extra_defs, golden=True, numbers=numbers)
        for eid, ty in ents:
            val = pg.gen(ty, 0.0)
            perms = [coregen.permute(val, rng) for _ in range(nperms)] if nperms and coregen.count_maps(val) else []
            out.append({"ty": eid, "val": val, "src": "ov" if len(numbers) % 2 else "json", "grp": "start", "perm": False, "auto": auto, "perms": perms})
    return out


def boundary_inputs(ents, rng, auto):
    """C02 / C04: every scalar entry (and every container of scalars one level up) fed with the values just inside and just outside
    each bound of the target, a zero for the NonZero types, a negative number for the unsigned ones and one value of every kind"""
    out = []
    allkinds = [coregen.vnull(), coregen.vbool(True), coregen.vint(1), coregen.vneg(-1), coregen.vfloat(1.5), coregen.vstr("a"),
                coregen.vseq([]), coregen.vmap([])]

    def points(name):
        if name not in coregen.RANGES:
            return list(allkinds) + [coregen.vstr(""), coregen.vstr("ab"), coregen.vstr("\u00e9\u00e9"), coregen.vstr("a" * 63 + "\u00e9" + "b"),
                                     coregen.vstr("a" * 62 + "\u20ac" + "b"), coregen.vstr("\u00e9" * 40), coregen.vstr("x" * 300)]
        lo, hi = coregen.RANGES[name]
        xs = {lo, lo + 1, hi, hi - 1, 0, -1, 1, 2**63 - 1, 2**63, 2**64 - 1, -2**63, 2**31, 2**32, 255, 256, 127, 128, -128, -129}
        xs |= {lo - 1, hi + 1}
        return [coregen.vnum(x) for x in sorted(xs) if -2**63 <= x <= 2**64 - 1] + [coregen.vneg(0), coregen.vneg(5), coregen.vneg(300)] + allkinds

    for eid, ty in ents:
        if ty[0] == "scalar":
            for v in points(ty[1]):
                out.append({"ty": eid, "val": v, "src": "ov", "grp": "start", "perm": False, "auto": auto, "perms": []})
        elif ty[0] in ("vec", "opt", "box") and ty[1][0] == "scalar":
            for v in points(ty[1][1]):
                out.append({"ty": eid, "val": coregen.vseq([v, v]) if ty[0] == "vec" else v, "src": "ov", "grp": "start", "perm": False, "auto": auto, "perms": []})
    return out


def gen_inputs(pid, tier, seed, extra_defs=(), extra_entries=()):
    rng = random.Random(seed * 7919 + sum(ord(c) for c in pid))
    ents, table = coregen.entries(extra_defs, extra_entries)
    pg = coregen.PayloadGen(rng, extra_defs)
    prof = profile(pid)
    n = prof["n"][tier]
    recs = []
    for eid, ty in ents:
        for i in range(n):
            p = [0.0, 0.12, 0.3, 0.5][i % 4] if not prof.get("faulty") else [0.15, 0.3, 0.5, 0.7][i % 4]
            val = pg.gen(ty, p)
            nm = coregen.count_maps(val)
            perms = []
            if prof["perms"] and nm > 0:
                perms = coregen.top_perms(val, 24 if tier == "thorough" else 6) if i % 2 == 0 else []
                perms += [coregen.permute(val, rng) for _ in range(prof["perms"])]
            rec = {"ty": eid, "val": val, "src": "json" if (i % 2 == 0 or prof.get("json_only")) else "ov", "grp": "start", "perm": False,
                   "auto": prof["auto"], "perms": perms}
            if prof.get("extras") and not coregen.has_deny(ty, pg.defs):
                ex = coregen.add_extras(ty, val, pg.defs, rng, poison=(rec["src"] == "ov"))
                if ex != val:
                    rec["extras"] = [ex]
            recs.append(rec)
    recs += systematic_inputs(ents, rng, dict(prof["auto"], all_upto=min(prof["auto"]["all_upto"], 3), random=min(prof["auto"]["random"], 1)),
                              1 if prof["perms"] else 0, extra_defs)
    recs += golden_inputs(ents, rng, dict(prof["auto"], all_upto=min(prof["auto"]["all_upto"], 3), random=min(prof["auto"]["random"], 1)),
                          1 if prof["perms"] else 0, extra_defs)
    if pid in ("C04", "C06", "C02", "C01", "C03") or tier == "thorough":
        recs += positional_inputs(ents, rng, extra_defs)
    if pid in ("C02", "C04", "C12") or tier == "thorough":
        recs += boundary_inputs(ents, rng, {"prefix_cap": 2, "all_upto": 0, "random": 0, "builtin": pid != "C02"})
    if pid == "C08" or (tier == "thorough" and pid in ("C02", "C07")):
        recs += subset_inputs(ents, rng, 3 if tier == "quick" else 4, extra_defs)
    if pid == "C15":
        recs += perm_fault_inputs(ents, rng, extra_defs)
        recs += collide_inputs(ents, rng)
    if pid == "C12":
        recs += adversarial_inputs(ents, rng)
    return recs, ents


def write_ndjson(path, recs):
    with open(path, "w") as f:
        for r in recs:
            f.write(json.dumps(r) + "\n")


def mc_inputs_from_trace(trace_path, out_path, maxsize, cap, maxwidth=99):
    """small inputs for the generative model, spread over the catalogue entries (largest first within an entry)"""
    seen, per = set(), {}
    with open(trace_path) as f:
        for line in f:
            if '"e":"reset"' not in line:
                continue
            if any(x in line for x in ('"7ff', '"fff')):   # non-finite floats: the opaque jvalue phase is not generative
                continue
            e = json.loads(line)
            if e.get("deep"):
                continue
            key = json.dumps([e["ty"], e["val"]], sort_keys=True)
            sz = size(e["val"])
            if key in seen or sz > maxsize or width(e["val"]) > maxwidth:
                continue
            seen.add(key)
            per.setdefault(e["ty"], []).append((sz, {"ty": e["ty"], "val": e["val"], "pk": e["pk"], "src": e["src"]}))
    for k in per:
        per[k].sort(key=lambda x: -x[0])
    out = []
    rank = 0
    while len(out) < cap and any(len(v) > rank for v in per.values()):
        for k in sorted(per):
            if len(per[k]) > rank and len(out) < cap:
                out.append(per[k][rank][1])
        rank += 1
    with open(out_path, "w") as o:
        for r in out:
            o.write(json.dumps(r) + "\n")
    return len(out)


def is_known_collision(run_events):
    """F5: a map target fed with two members whose (distinct) keys parse to the same key"""
    head = run_events[0]
    pk = {row["k"]: row for row in head.get("pk", [])}

    def walk(v):
        if v["t"] == "map":
            ks = [m["k"] for m in v["e"]]
            for ty in ("u8", "i32"):
                parsed = [pk[k][ty]["v"] for k in ks if k in pk and pk[k][ty]["z"] == "some"]
                if len(parsed) != len(set(parsed)):
                    return True
            return any(walk(m["v"]) for m in v["e"])
        if v["t"] == "seq":
            return any(walk(x) for x in v["e"])
        return False
    return walk(head["val"])


def locate_runs(lines, viol_items):
    """map violating line numbers (1-based, within `lines`) to (group-reference run, offending run)"""
    starts = [i for i, ln in enumerate(lines) if ln.startswith('{"deep"') or '"e":"reset"' in ln[:400] or '"e":"run"' in ln[:400]]
    heads = [i for i in range(len(lines)) if ('"e":"reset"' in lines[i] or '"e":"run"' in lines[i]) and '"pk"' in lines[i]]
    out = []
    for it in viol_items:
        idx = it["l"] - 1
        hs = [h for h in heads if h <= idx]
        if not hs:
            continue
        s = hs[-1]
        nxt = [h for h in heads if h > idx]
        e = nxt[0] if nxt else len(lines)
        g = s
        while g > 0 and '"e":"reset"' not in lines[g]:
            g -= 1
        out.append({"item": it, "run": [json.loads(x) for x in lines[s:e]], "ref_head": json.loads(lines[g])})
    return out


def validate(pid, trace_path, nshards, timeout=3000, env_extra=None):
    with open(trace_path) as f:
        lines = [ln.rstrip("\n") for ln in f if ln.strip()]
    shards = vlib.shard_lines(lines, nshards)
    jobs, meta = [], []
    for k, sh in enumerate(shards):
        sp = "%s.shard%d" % (trace_path, k)
        with open(sp, "w") as f:
            f.write("\n".join(sh) + "\n")
        meta.append((sp, sh))
        jobs.append((vlib.validate_trace, ("Trace_core", "Trace_core.cfg", sp, "%s-core-%s-%d" % (pid, os.path.basename(trace_path), k), timeout, env_extra, "3g")))
    outs = vlib.parallel(jobs, min(len(jobs), max(1, vlib.NCPU // 2)))
    tot = {"lines": 0, "runs": 0, "reports": 0, "breaks": 0, "compared": 0, "perms": 0, "msgs": 0, "calls": 0, "states": 0,
           "vcount": {}, "checked": {}}
    bad = []
    for (sp, sh), (res, tr) in zip(meta, outs):
        if res["lines"] != len(sh):
            raise vlib.ToolError("shard %s not fully consumed" % sp)
        for k in ("lines", "runs", "reports", "breaks", "compared", "perms", "msgs", "calls"):
            tot[k] += res[k]
        tot["states"] += tr.distinct
        for p, c in res["vcount"].items():
            tot["vcount"][p] = tot["vcount"].get(p, 0) + c
        for p, c in res["checked"].items():
            tot["checked"][p] = tot["checked"].get(p, 0) + c
        if res["viol"]:
            bad += locate_runs(sh, res["viol"])
        os.remove(sp)
    return tot, bad


TRAIT_KINDS = {"C08": ("fieldstate", "cf"), "C12": ("fieldstate",), "C15": ("map",), "C10": ("map",), "C06": ("seq",)}


def traits_subcheck(pid, tier, binary):
    """the building blocks behind a property (spec/DTraits.tla): FieldState helpers (C08, C12), the Map trait of serde_json::Map
    (C10 tag removal, C15), the Sequence trait (C06)"""
    kinds = TRAIT_KINDS.get(pid)
    if not kinds:
        return None
    r = vlib.run_tlc("MC_traits", "MC_traits.cfg", "%s-traits-mc" % pid, workers=2, timeout=600)
    vlib.tlc_must_pass(r, "MC_traits")
    tdir = os.path.join(vlib.WORK, "traces")
    full = os.path.join(tdir, "%s-traits-all.ndjson" % pid)
    vlib.run_harness(binary, ["traits", "300" if tier == "quick" else "5000"], stdout_path=full)
    tp = os.path.join(tdir, "%s-traits.ndjson" % pid)
    n = 0
    with open(full) as f, open(tp, "w") as o:
        for ln in f:
            if any('"k":"%s"' % k in ln for k in kinds):
                o.write(ln)
                n += 1
    lines, results, bad, st = helpers.validate_sharded(pid, "Trace_traits", "Trace_traits.cfg", tp, 2)
    viols = []
    for b in bad:
        ev = b["events"][0]
        path = vlib.save_replay(pid, "traits", {"property": pid, "kind": "traits", "input": ev.get("inp"), "observed": ev})
        viols.append((path, "building block %s disagrees with DTraits: %s" % (ev.get("k"), json.dumps(ev)[:300])))
    return {"mc_states": r.distinct, "lines": lines, "tv_states": st, "kinds": list(kinds), "violations": viols}


def exercise_report(trace_paths, cat_json):
    """what of the catalogue the executed runs actually reached: entries that never succeed / never fail, user functions never called,
    fallible ones that never fail or never succeed (a check cannot notice a change in code no run reaches)"""
    import collections
    cat = json.load(open(cat_json))
    fallible, infallible = set(), set()
    for n in cat["nodes"]:
        if not isinstance(n, dict):
            continue
        if n.get("cfn"):
            (fallible if n.get("cfrom") == "try" else infallible).add(n["cfn"])
        if n.get("vfn"):
            fallible.add(n["vfn"])
        if n.get("denyfn"):
            infallible.add(n["denyfn"])
        fl = list(n.get("fields") or []) + [f for v in (n.get("variants") or []) for f in (v.get("fields") or [])]
        for f in fl:
            if f.get("fn"):
                (fallible if f.get("frm") == "try" else infallible).add(f["fn"])
            for k in ("mapfn", "missfn"):
                if f.get(k):
                    infallible.add(f[k])
    called, retok, reterr = collections.Counter(), collections.Counter(), collections.Counter()
    okruns, errruns, cur = collections.Counter(), collections.Counter(), None
    for tp in trace_paths:
        with open(tp) as fh:
            for l in fh:
                if '"e":"call"' in l:
                    called[json.loads(l)["f"]] += 1
                elif '"e":"ret"' in l:
                    e = json.loads(l); (retok if e["ok"] else reterr)[e["f"]] += 1
                elif '"e":"reset"' in l or '"e":"run"' in l:
                    cur = json.loads(l)["ty"]
                elif '"e":"done"' in l:
                    (okruns if json.loads(l)["ok"] else errruns)[cur] += 1
    ents = [e for e in cat["entries"] if okruns[e] + errruns[e] > 0]
    return {"user_functions": len(fallible | infallible), "never_called": sorted((fallible | infallible) - set(called)),
            "fallible_never_failing": sorted(f for f in fallible if called[f] and not reterr[f]),
            "fallible_never_succeeding": sorted(f for f in fallible if called[f] and not retok[f]),
            "entries_run": len(ents), "entries_never_ok": [e for e in ents if not okruns[e]], "entries_never_err": [e for e in ents if not errruns[e]]}


def run(pid, tier, prop=None):
    """prop: the property whose violations count (default pid)"""
    prop = prop or pid
    t0 = time.time()
    vlib.ensure_dirs()
    subprocess.check_call([sys.executable, os.path.join(vlib.VERIF, "tools", "gen_catalogue.py")], stdout=subprocess.DEVNULL)
    extra_defs, extra_entries, cat_env, build_env = (), (), {}, None
    if tier == "thorough":
        # programs: seeded random derive inputs extend the catalogue for this run (recompiled against the working tree)
        extra_defs, extra_entries = randdefs.random_defs(vlib.seed(), 40)
        ext = os.path.join(vlib.WORK, "ext")
        rs, cj = os.path.join(ext, "gen_cat_%d.rs" % vlib.seed()), os.path.join(ext, "catalogue_%d.json" % vlib.seed())
        gen_catalogue.generate(extra_defs, extra_entries, write=True, out_rs=rs, out_json=cj)
        cat_env, build_env = {"CATALOGUE": cj}, {"DH_GEN_CAT": rs}
    binary = vlib.build_harness(env_extra=build_env)
    tdir = os.path.join(vlib.WORK, "traces")
    recs, ents = gen_inputs(pid, tier, vlib.seed(), extra_defs, extra_entries)
    inp = os.path.join(tdir, "%s-in.ndjson" % pid)
    write_ndjson(inp, recs)
    t1 = os.path.join(tdir, "%s-core.ndjson" % pid)
    vlib.run_harness(binary, ["core", "run"], stdin_path=inp, stdout_path=t1, timeout=3000)
    log("[core] %d inputs executed (%.1fs so far)" % (len(recs), time.time() - t0))

    # --- TLC on the specification: every order x every answer sequence on the small inputs
    # free order explores k! schedules per container of k obligations: narrow inputs; the canonical schedule takes wider ones
    mcin_free = os.path.join(tdir, "%s-mcin-free.ndjson" % pid)
    mcin_canon = os.path.join(tdir, "%s-mcin-canon.ndjson" % pid)
    nmc_free = mc_inputs_from_trace(t1, mcin_free, 8 if tier == "quick" else 10, 500 if tier == "quick" else 2500, 3 if tier == "quick" else 4)
    nmc_canon = mc_inputs_from_trace(t1, mcin_canon, 10 if tier == "quick" else 16, 300 if tier == "quick" else 2500)
    mc_runs = []
    states = transitions = 0
    violations = []
    replay_recs = []
    cfgs = [("MC_core_free.cfg", 8), ("MC_core_canon.cfg", 4)]
    if pid == "C12":
        cfgs.append(("MC_core_live.cfg", 4))      # <>(the call has returned) under weak fairness, no state constraint
    for cfg, workers in cfgs:
        mcin, nmc = (mcin_canon, nmc_canon) if cfg == "MC_core_canon.cfg" else (mcin_free, nmc_free)
        budget = 300 if tier == "quick" else 2400
        r = None
        while r is None:
            try:
                r = vlib.run_tlc("MC_core", cfg, "%s-%s" % (pid, cfg[:-4]), workers=workers, env_extra=dict(cat_env, MCIN=mcin),
                                 timeout=budget, xmx="8g")
            except vlib.ToolError as e:
                # the free-order state space of an input grows with k! for k obligations: keep the cheaper half and retry
                lines = open(mcin).read().splitlines()
                if len(lines) < 20:
                    raise
                lines.sort(key=len)
                mcin = mcin + ".half"
                with open(mcin, "w") as f:
                    f.write("\n".join(lines[: len(lines) // 2]) + "\n")
                nmc = len(lines) // 2
                log("[mc] %s did not finish within %ds; retrying with the %d smallest inputs" % (cfg, budget, nmc))
        if not r.ok:
            log(r.error_text[:1500])
            path = vlib.save_replay(pid, "mc", {"kind": "tlc-counterexample", "module": "MC_core", "cfg": cfg, "output": r.error_text})
            violations.append((path, "TLC reports an error on the generative machine (%s)" % cfg))
            break
        states += r.distinct
        transitions += r.generated
        rp = vlib.tagged_json(r, "REPLAY")
        mc_runs.append({"cfg": cfg, "inputs": nmc, "distinct_states": r.distinct, "states_generated": r.generated, "depth": r.depth,
                        "replay_records": len(rp), "wall_s": round(r.wall, 1)})
        log("[mc] %s: %d inputs, %d distinct states, %d generated, %d replay records, %.1fs" % (cfg, nmc, r.distinct, r.generated, len(rp), r.wall))
        if cfg == "MC_core_canon.cfg":
            mcl = [json.loads(x) for x in open(mcin)]
            for rec in rp:
                m = mcl[rec["idx"] - 1]
                replay_recs.append({"ty": m["ty"], "val": m["val"], "src": m["src"], "grp": "start", "perm": False, "etype": "rec",
                                    "script": [1 if a == "c" else 0 for a in rec["hist"]], "dflt": "c", "perms": [], "tag": "tlc-replay"})
    traces = [t1]
    if replay_recs:
        rin = os.path.join(tdir, "%s-replay-in.ndjson" % pid)
        write_ndjson(rin, replay_recs)
        t2 = os.path.join(tdir, "%s-replay.ndjson" % pid)
        vlib.run_harness(binary, ["core", "run"], stdin_path=rin, stdout_path=t2, timeout=3000)
        traces.append(t2)

    # --- impl -> spec
    tot_all = None
    known_hits = []
    # open findings come from the committed known_findings.json only
    open_f5 = any(f["property"] == "C15" and f["status"] == "open" and f["id"] == "F5" for f in vlib.load_known_findings())
    samples = []
    nontrivial = set()
    for tp in traces:
        tot, bad = validate(pid, tp, 8 if tier == "quick" else 14, env_extra=cat_env)
        log("[trace] %s: %d lines, %d runs, vcount=%s" % (os.path.basename(tp), tot["lines"], tot["runs"], {k: v for k, v in tot["vcount"].items() if v}))
        others = {k: v for k, v in tot["vcount"].items() if v and k != prop}
        if others:
            log("NOTE: this trace also contains deviations charged to other properties (judged by their own checks): %s" % others)
        if tot_all is None:
            tot_all = tot
        else:
            for k in ("lines", "runs", "reports", "breaks", "compared", "perms", "msgs", "calls", "states"):
                tot_all[k] += tot[k]
            for d in ("vcount", "checked"):
                for p, c in tot[d].items():
                    tot_all[d][p] = tot_all[d].get(p, 0) + c
        if tot["vcount"].get("CONF", 0) > 0:
            for b in bad:
                if "CONF" in b["item"]["props"]:
                    log(json.dumps(b["item"]))
            raise vlib.ToolError("conformance failure: an event breaks the stack discipline itself (harness or spec defect)")
        for b in bad:
            if prop not in b["item"]["props"]:
                continue
            if prop == "C15" and open_f5 and is_known_collision(b["run"]):
                d = "F5: a map target fed with two members whose distinct keys parse to the same key keeps the last one (order-dependent)"
                if d not in known_hits:
                    known_hits.append(d)
                continue
            path = vlib.save_replay(pid, "core", {"property": prop, "why": b["item"]["why"], "line_in_shard": b["item"]["l"],
                                                   "input": b["run"][0]["inp"], "reference_input": b["ref_head"]["inp"],
                                                   "observed": b["run"][:200]})
            violations.append((path, b["item"]["why"]))
        with open(tp) as f:
            for ln in f:
                if '"e":"reset"' in ln:
                    e = json.loads(ln)
                    if size(e["val"]) >= 3:
                        nontrivial.add(json.dumps([e["ty"], e["val"]], sort_keys=True))
                    if len(samples) < 4:
                        samples.append({"entry": e["ty"], "src": e["src"], "payload": e["val"]})
    # vacuity: the property's guards must have been exercised
    exercised = tot_all["checked"].get(prop, 0)
    if exercised == 0 and prop not in ("C12",):
        raise vlib.ToolError("vacuous run: no event exercised a guard of %s" % prop)
    ex = exercise_report(traces, cat_env.get("CATALOGUE", os.path.join(vlib.VERIF, "catalogue", "catalogue.json")))
    gaps = {k: v for k, v in ex.items() if isinstance(v, list) and v and k != "entries_never_err"}
    if gaps:
        log("NOTE: parts of the catalogue no run of this check reached: %s" % json.dumps(gaps))
    tr = traits_subcheck(pid, tier, binary)
    if tr:
        violations += tr["violations"]
        states += tr["mc_states"]
        log("[traits] %s: %d lines of %s validated against DTraits" % (pid, tr["lines"], tr["kinds"]))
    cov = {
        "building_blocks_validated": ({"kinds": tr["kinds"], "lines": tr["lines"]} if tr else {}),
        "states": states + tot_all["states"],
        "transitions": transitions + tot_all["lines"],
        "traces_validated_against_impl": tot_all["runs"],
        "samples": samples,
        "evaluations": tot_all["runs"],
        "distinct_nontrivial": len(nontrivial),
        "catalogue_entries": len(ents), "random_derive_inputs": len(extra_defs),
        "rule": "one run = one call of deserr::deserialize on a catalogue entry (87 hand-written entries, thorough: + 40 seeded random derive inputs and their wrappers: every std impl, nested containers, derived structs / enums "
                "with rename / rename_all / default / skip / deny_unknown_fields / tags) with a seeded type-directed payload (valid and with faults at random "
                "positions), through serde_json or the order-preserving second value source, under the keep-going script, every C^k B^w script, all scripts "
                "when there are few decisions, random scripts, JsonError / QueryParamError, and permuted object members; plus every canonical behaviour TLC "
                "found on the small inputs (REPLAY); non-trivial = distinct (entry, payload) with at least 3 payload nodes",
        "exhaustive": False,
        "mc_runs": mc_runs,
        "mc_distinct_states": states,
        "trace_events_validated": tot_all["lines"],
        "reports_seen": tot_all["reports"],
        "stop_answers_seen": tot_all["breaks"],
        "events_compared_with_keep_going_run": tot_all["compared"],
        "permuted_runs_compared": tot_all["perms"],
        "builtin_messages_compared": tot_all["msgs"],
        "user_function_calls_seen": tot_all["calls"], "exercised": ex,
        "guard_evaluations_for_this_property": exercised,
        "violations_by_property_in_this_trace": {k: v for k, v in tot_all["vcount"].items() if v},
        "checker_cmd": "tlc MC_core (MC_core_free.cfg, MC_core_canon.cfg) + tlc Trace_core per shard",
    }
    assumptions = helpers_assumptions()
    vlib.write_evidence(pid, tier, "model_checking", cov, assumptions, time.time() - t0, len(violations))
    return vlib.finish(pid, violations, known_hits)


def helpers_assumptions():
    return [
        "TLC 1.8.0 and the CommunityModules Json/IOUtils overrides are trusted",
        "the recording error type keeps what it is handed (hypothesis of C01); report ids are read from error values by type name",
        "std's FromStr tables for map keys / comma separated segments are logged by the harness (std is trusted)",
        "catalogue identifiers are ASCII words (camelCase of digits / acronyms is convert_case's business)",
        "first deviation wins: after the first event no candidate explains, the rest of that run is not judged",
    ]


def replay(pid, path):
    obj = json.load(open(path))
    if obj.get("kind") == "tlc-counterexample":
        print(obj["output"])
        return 1
    subprocess.check_call([sys.executable, os.path.join(vlib.VERIF, "tools", "gen_catalogue.py")], stdout=subprocess.DEVNULL)
    binary = vlib.build_harness()
    tdir = os.path.join(vlib.WORK, "traces")
    rin = os.path.join(tdir, "%s-rp-in.ndjson" % pid)
    recs = []
    ref = dict(obj["reference_input"])
    for k in ("script", "dflt"):
        ref.pop(k, None)
    ref["auto"] = {"prefix_cap": 0, "all_upto": 0, "random": 0, "builtin": False}
    inp = dict(obj["input"])
    if inp.get("perm"):
        ref["perms"] = [inp["val"]]
        recs.append(ref)
    elif inp.get("etype", "rec") != "rec":
        ref["auto"]["builtin"] = True
        recs.append(ref)
    else:
        inp.pop("auto", None)
        recs.append(inp)
    write_ndjson(rin, recs)
    tp = os.path.join(tdir, "%s-rp.ndjson" % pid)
    vlib.run_harness(binary, ["core", "run"], stdin_path=rin, stdout_path=tp)
    tot, bad = validate(pid, tp, 1)
    prop = obj.get("property", pid)
    for b in bad:
        print(json.dumps(b["item"]))
    if any(prop in b["item"]["props"] for b in bad):
        print("VIOLATION property=%s replay=%s" % (pid, path))
        return 1
    print("OK property=%s (replayed input no longer violates)" % pid)
    return 0
