#!/usr/bin/env python3
"""Entry point of every registered check:  tools/check.py <Cxx> [--tier quick|thorough] [--replay <path>]"""
import argparse, os, sys, traceback
sys.path.insert(0, os.path.dirname(os.path.abspath(__file__)))
import vlib


def main():
    ap = argparse.ArgumentParser()
    ap.add_argument("pid")
    ap.add_argument("--tier", default=os.environ.get("VERIF_TIER", "quick"), choices=["quick", "thorough"])
    ap.add_argument("--replay", default=None)
    a = ap.parse_args()
    try:
        import registry
        if a.pid not in registry.CHECKS:
            print("unknown property %s" % a.pid, file=sys.stderr)
            return 2
        fn_run, fn_replay = registry.CHECKS[a.pid]
        if a.replay:
            return fn_replay(a.pid, a.replay)
        return fn_run(a.pid, a.tier)
    except vlib.ToolError as e:
        print("TOOL-ERROR property=%s %s" % (a.pid, e), file=sys.stderr)
        return 2
    except Exception:
        traceback.print_exc()
        print("TOOL-ERROR property=%s unexpected exception" % a.pid, file=sys.stderr)
        return 2


if __name__ == "__main__":
    sys.exit(main())
