#!/usr/bin/env python3
"""Entry point of every registered check:  tools/check.py <Cxx> [--tier quick|thorough] [--replay <path>]"""
import argparse, os, sys, traceback
sys.path.insert(0, os.path.dirname(os.path.abspath(__file__)))
import vlib


def seeded_selftest(pid):
    """thorough tier: run this property's quick check against every seeded change recorded for it (in a scratch worktree, never in
    /repo) and record the kill table in the evidence file.  The verdict of the check is not affected."""
    import glob, json, subprocess
    V = vlib.VERIF
    seeds = []
    for mp in sorted(glob.glob(os.path.join(V, "seeded", "*", "meta.json"))):
        m = json.load(open(mp))
        if pid in m.get("checks", []) and m.get("kind") != "neutral":
            seeds.append(os.path.basename(os.path.dirname(mp)))
    if not seeds:
        return
    scratch = os.path.join(os.environ.get("TMPDIR", "/tmp"), "deserr-mut-%s" % pid)
    p = subprocess.run([sys.executable, os.path.join(V, "tools", "mutants.py")] + seeds + ["--props", pid, "--scratch", scratch],
                       stdout=subprocess.PIPE, stderr=subprocess.STDOUT, text=True)
    table = {}
    for line in p.stdout.splitlines():
        try:
            sid, rest = line.split(" ", 1)
            r = json.loads(rest)
            table[sid] = r.get(pid, {}).get("verdict", "error") if "error" not in r else "patch does not apply"
        except Exception:
            continue
    evp = os.path.join(vlib.EVID, pid + ".json")
    ev = json.load(open(evp))
    ev["coverage"]["seeded_changes"] = {"caught": sorted(k for k, v in table.items() if v == "caught"),
                                        "not_caught": sorted(k for k, v in table.items() if v != "caught"), "total": len(table)}
    json.dump(ev, open(evp, "w"), indent=1, sort_keys=True)
    print("SEEDED property=%s caught=%d of %d %s" % (pid, sum(1 for v in table.values() if v == "caught"), len(table),
                                                      {k: v for k, v in table.items() if v != "caught"}))


def main():
    ap = argparse.ArgumentParser()
    ap.add_argument("pid")
    ap.add_argument("--tier", default=os.environ.get("VERIF_TIER", "quick"), choices=["quick", "thorough"])
    ap.add_argument("--replay", default=None)
    a = ap.parse_args()
    try:
        import registry
        if a.pid not in registry.CHECKS:
            print("unknown property %s" % a.pid, file=sys.stderr)
            return 2
        fn_run, fn_replay = registry.CHECKS[a.pid]
        if a.replay:
            return fn_replay(a.pid, a.replay)
        rc = fn_run(a.pid, a.tier)
        # opt-in (VERIF_WITH_SEEDS=1): the kill table of this property's seeded changes; the full table of the last sweep is
        # committed as seeded/RESULTS.json and in DESIGN.md 11.5
        if a.tier == "thorough" and rc == 0 and os.environ.get("VERIF_WITH_SEEDS") and not os.environ.get("DESERR_REPO"):
            try:
                seeded_selftest(a.pid)
            except Exception as e:      # the kill table is an extra; it never changes the verdict of the check
                print("NOTE property=%s seeded self-test not recorded: %s" % (a.pid, e))
        return rc
    except vlib.ToolError as e:
        print("TOOL-ERROR property=%s %s" % (a.pid, e), file=sys.stderr)
        return 2
    except Exception:
        traceback.print_exc()
        print("TOOL-ERROR property=%s unexpected exception" % a.pid, file=sys.stderr)
        return 2


if __name__ == "__main__":
    sys.exit(main())
