#!/usr/bin/env python3
"""Markdown summary of seeded/RESULTS.json (written by tools/mutant_table.py) for DESIGN.md 11.5: one row per property."""
import json, os, collections
V = os.path.dirname(os.path.dirname(os.path.abspath(__file__)))
res = json.load(open(os.path.join(V, "seeded", "RESULTS.json")))
rows = collections.OrderedDict()
for sid in sorted(res):
    mp = os.path.join(V, "seeded", sid, "meta.json")
    meta = json.load(open(mp)) if os.path.exists(mp) else {}
    prop = meta.get("property", sid[:3])
    kind = "neutral" if meta.get("kind") == "neutral" else ("revert" if sid.startswith("F") else "violating")
    for chk, v in res[sid].items():
        r = rows.setdefault(prop if kind != "revert" else "fix reverts", {"caught": [], "missed": [], "quiet": [], "false-alarm": [], "other": []})
        tag = sid if chk == prop or kind == "revert" else "%s (by %s)" % (sid, chk)
        r.get(v["verdict"], r["other"]).append(tag)
print("| property | changes that break it: caught | missed | changes under which it holds: quiet | false alarm |")
print("|---|---|---|---|---|")
for prop, r in rows.items():
    print("| %s | %d: %s | %s | %d: %s | %s |" % (prop, len(r["caught"]), ", ".join(r["caught"]), ", ".join(r["missed"]) or "-", len(r["quiet"]),
                                              ", ".join(r["quiet"]) or "-", ", ".join(r["false-alarm"]) or "-"))
tot = {k: sum(len(r[k]) for r in rows.values()) for k in ("caught", "missed", "quiet", "false-alarm")}
print("\ntotal: %(caught)d caught, %(missed)d missed, %(quiet)d quiet, %(false-alarm)d false alarms" % tot)
